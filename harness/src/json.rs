//! Minimal JSON value + writer (no external crates).
use std::collections::BTreeMap;

#[derive(Clone, Debug)]
pub enum J {
    Null,
    B(bool),
    I(i64),
    F(f64),
    S(String),
    A(Vec<J>),
    O(BTreeMap<String, J>),
}

impl J {
    pub fn s(x: impl Into<String>) -> J {
        J::S(x.into())
    }
    pub fn obj(items: Vec<(&str, J)>) -> J {
        J::O(items.into_iter().map(|(k, v)| (k.to_string(), v)).collect())
    }
    pub fn arr_s(v: &[String]) -> J {
        J::A(v.iter().map(|x| J::S(x.clone())).collect())
    }
    pub fn write(&self, out: &mut String) {
        match self {
            J::Null => out.push_str("null"),
            J::B(b) => out.push_str(if *b { "true" } else { "false" }),
            J::I(i) => out.push_str(&i.to_string()),
            J::F(f) => out.push_str(&format!("{}", f)),
            J::S(s) => {
                out.push('"');
                for c in s.chars() {
                    match c {
                        '"' => out.push_str("\\\""),
                        '\\' => out.push_str("\\\\"),
                        '\n' => out.push_str("\\n"),
                        '\r' => out.push_str("\\r"),
                        '\t' => out.push_str("\\t"),
                        c if (c as u32) < 0x20 => out.push_str(&format!("\\u{:04x}", c as u32)),
                        c => out.push(c),
                    }
                }
                out.push('"');
            }
            J::A(v) => {
                out.push('[');
                for (i, x) in v.iter().enumerate() {
                    if i > 0 {
                        out.push(',');
                    }
                    x.write(out);
                }
                out.push(']');
            }
            J::O(m) => {
                out.push('{');
                for (i, (k, v)) in m.iter().enumerate() {
                    if i > 0 {
                        out.push(',');
                    }
                    J::S(k.clone()).write(out);
                    out.push(':');
                    v.write(out);
                }
                out.push('}');
            }
        }
    }
    pub fn to_string(&self) -> String {
        let mut s = String::new();
        self.write(&mut s);
        s
    }
}
