//! Glue between the independent term model and the real e-graph (by text) + structural monitors.
use crate::core::*;
use crate::tm::*;
use slotted_egraphs::*;
use std::collections::{BTreeMap, BTreeSet};

pub fn slot_of(n: Name) -> Slot {
    Slot::named(&pname(n)[1..])
}

pub fn to_rec<L: Language>(lang: &LangSig, t: &Tm) -> RecExpr<L> {
    RecExpr::parse(&t.text(lang, &pname)).unwrap_or_else(|e| panic!("harness: cannot parse own term {}: {e:?}", t.text(lang, &pname)))
}

/// slot map sending slot(p) -> slot(tau(p)) for the given names
pub fn slotmap_of(tau: &BTreeMap<Name, Name>) -> SlotMap {
    tau.iter().map(|(a, b)| (slot_of(*a), slot_of(*b))).collect()
}

pub fn names_of_slots(s: &SmallHashSet<Slot>, universe: &BTreeSet<Name>) -> Option<BTreeSet<Name>> {
    let mut out = BTreeSet::new();
    for x in s.iter() {
        let n = universe.iter().find(|n| slot_of(**n) == *x)?;
        out.insert(*n);
    }
    Some(out)
}

/// Structural invariants of C08, checked at a quiescent point (after a public call returned).
/// Returns (number of checks, first violated invariant).
pub fn structural_invariants<L: Language, N: Analysis<L>>(eg: &EGraph<L, N>) -> (u64, Option<(String, String)>) {
    let mut n = 0u64;
    macro_rules! bad {
        ($name:expr, $($arg:tt)*) => {
            return (n, Some(($name.to_string(), format!($($arg)*))))
        };
    }
    // built-in consistency check
    n += 1;
    if let Err(p) = guard(|| eg.check()) {
        bad!(format!("check() {}", p.site()), "EGraph::check panicked at {}: {}", p.loc, p.msg.chars().take(300).collect::<String>());
    }
    let ids = eg.ids();
    let mut owner: std::collections::HashMap<L, Id> = Default::default();
    for &i in &ids {
        n += 1;
        if !eg.is_alive(i) {
            bad!("ids-not-alive", "{i:?} in ids() but not alive");
        }
        let ident = eg.mk_identity_applied_id(i);
        n += 1;
        let f = eg.find_applied_id(&ident);
        if f != ident {
            bad!("find-identity", "find({ident:?}) = {f:?}");
        }
        let cslots = eg.slots(i);
        let nodes = match guard(|| eg.enodes(i)) {
            Ok(x) => x,
            Err(p) => bad!(format!("enodes() {}", p.site()), "enodes({i:?}) panicked: {}", p.msg),
        };
        for nd in nodes {
            n += 3;
            // every e-node mentions all slots of its class
            if !nd.slots().is_superset(&cslots) {
                bad!("enode-lacks-class-slot", "{nd:?} in {i:?} with class slots {cslots:?}");
            }
            // every e-node looks up to its class, as the identity invocation up to the class symmetries
            match guard(|| eg.lookup(&nd)) {
                Ok(Some(a)) => {
                    if a.id != i {
                        bad!("enode-lookup-other-class", "{nd:?} listed in {i:?} looks up to {a:?}");
                    }
                    if !eg.eq(&a, &ident) {
                        bad!("enode-lookup-not-identity", "{nd:?} listed in {i:?} looks up to {a:?}, not equal to the identity invocation");
                    }
                }
                Ok(None) => bad!("enode-lookup-none", "{nd:?} listed in {i:?} cannot be looked up"),
                Err(p) => bad!(format!("lookup() {}", p.site()), "lookup({nd:?}) panicked: {}", p.msg),
            }
            // no e-node (shape) in two live classes
            let sh = nd.weak_shape().0;
            if let Some(j) = owner.insert(sh.clone(), i) {
                if j != i {
                    // equal weak shapes in two classes: same node up to renaming listed twice
                    bad!("enode-in-two-classes", "shape {sh:?} in {j:?} and {i:?}");
                }
            }
            // children are canonical: find twice == find once
            for c in nd.applied_id_occurrences() {
                n += 1;
                let f1 = eg.find_applied_id(c);
                let f2 = eg.find_applied_id(&f1);
                if f1 != f2 {
                    bad!("find-not-idempotent", "find({c:?}) = {f1:?}, find again = {f2:?}");
                }
            }
        }
    }
    #[cfg(slotted_egraphs_verif)]
    {
        n += 2;
        if eg.verif_pending_len() != 0 {
            bad!("pending-not-drained", "pending work list has {} entries on return", eg.verif_pending_len());
        }
        if eg.verif_modify_queue_len() != 0 {
            bad!("modify-queue-not-drained", "modify queue has {} entries on return", eg.verif_modify_queue_len());
        }
    }
    (n, None)
}

/// find(find(x)) == find(x) and liveness for a set of handles
pub fn handle_invariants<L: Language, N: Analysis<L>>(eg: &EGraph<L, N>, handles: &[AppliedId]) -> (u64, Option<(String, String)>) {
    let mut n = 0;
    for h in handles {
        n += 1;
        let f1 = match guard(|| eg.find_applied_id(h)) {
            Ok(x) => x,
            Err(p) => return (n, Some((format!("find() {}", p.site()), format!("find({h:?}) panicked: {}", p.msg)))),
        };
        let f2 = eg.find_applied_id(&f1);
        if f1 != f2 {
            return (n, Some(("find-not-idempotent".into(), format!("find({h:?}) = {f1:?}, find again = {f2:?}"))));
        }
        if !eg.is_alive(f1.id) {
            return (n, Some(("find-dead".into(), format!("find({h:?}) = {f1:?} is not alive"))));
        }
        if !eg.ids().contains(&f1.id) {
            return (n, Some(("alive-not-in-ids".into(), format!("{:?} alive but absent from ids()", f1.id))));
        }
        // the identity invocation of the class id the handle was returned with (possibly merged away since), with the handle's
        // arguments plugged in, is the same invocation
        match guard(|| eg.find_applied_id(&eg.mk_identity_applied_id(h.id).apply_slotmap_partial(&h.m))) {
            Ok(alt) => {
                n += 1;
                if alt != f1 {
                    return (n, Some(("identity-invocation-of-old-id-differs".into(), format!("mk_identity_applied_id({:?}) with the arguments of {h:?} canonicalises to {alt:?}, the handle itself to {f1:?}", h.id))));
                }
            }
            Err(p) => return (n, Some((format!("mk_identity_applied_id() {}", p.site()), format!("mk_identity_applied_id({:?}).apply_slotmap panicked: {}", h.id, p.msg)))),
        }
        // the e-nodes of the class as seen through the handle (its user slots as arguments) look up to that invocation
        let ns = match guard(|| eg.enodes_applied(&f1)) {
            Ok(x) => x,
            Err(p) => return (n, Some((format!("enodes_applied() {}", p.site()), format!("enodes_applied({h:?}) panicked: {}", p.msg)))),
        };
        for nd in ns {
            n += 1;
            match guard(|| eg.lookup(&nd)) {
                Ok(Some(x)) => {
                    if !eg.eq(&x, h) {
                        return (n, Some(("enode-of-handle-in-other-invocation".into(), format!("enodes_applied({h:?}) lists {nd:?}, which looks up to {x:?}"))));
                    }
                }
                Ok(None) => return (n, Some(("enode-of-handle-not-found".into(), format!("enodes_applied({h:?}) lists {nd:?}, which cannot be looked up")))),
                Err(p) => return (n, Some((format!("lookup() {}", p.site()), format!("lookup({nd:?}) panicked: {}", p.msg)))),
            }
        }
    }
    (n, None)
}
