//! Seeded generators: terms, histories (adds + unions) with the hostile families the properties name.
use crate::json::J;
use crate::rng::Rng;
use crate::tm::*;
use std::collections::BTreeMap;

#[derive(Clone, Debug)]
pub struct GenCfg {
    pub lang: &'static LangSig,
    /// operator names allowed
    pub ops: Vec<&'static str>,
    /// number of free names to draw from
    pub ns: usize,
    pub max_depth: usize,
    /// reject terms with more than this many distinct free names in any subterm
    pub max_names: usize,
    /// allow binder names that shadow free names (drawn from the same alphabet)
    pub shadow: bool,
}

/// payload token for an operator (languages with payload fields)
pub fn payload_token(op: &str, r: &mut Rng) -> String {
    match op {
        "neg" | "big" => ["-3", "0", "17", "-1"][r.below(4)].to_string(),
        "flag" => ["true", "false"][r.below(2)].to_string(),
        "ch" => ["a", "b", "Z"][r.below(3)].to_string(),
        "tag" | "#sym" => ["alpha", "beta", "gamma", "s17", "omega", "k"][r.below(6)].to_string(),
        _ => format!("{}", r.below(4)),
    }
}

pub const SYM_OPS_BASIC: &[&str] = &["f", "g", "h", "k", "var", "c", "d", "u", "app", "lam", "sum", "let"];
pub const SYM_OPS_ALL: &[&str] = &["f", "g", "h", "k", "q", "var", "c", "d", "e", "u", "w", "app", "pair", "lam", "sum", "let", "bb", "idx", "sb", "bsl", "ite"];

/// names >= this are used for binders when shadowing is off (still < BOUND so they print as $p<k>)
pub const BINDER_BASE: Name = 500;

pub fn gen_term(r: &mut Rng, c: &GenCfg, depth: usize, next_binder: &mut Name, scope: &mut Vec<Name>) -> Tm {
    let leaf = depth == 0 || r.below(3) == 0;
    let cands: Vec<&'static OpSig> = c
        .ops
        .iter()
        .filter_map(|o| c.lang.op(o))
        .filter(|o| o.fields.iter().any(|f| matches!(f, Fld::C(_))) != leaf)
        .collect();
    let cands = if cands.is_empty() { c.ops.iter().filter_map(|o| c.lang.op(o)).collect() } else { cands };
    let o = *r.pick(&cands);
    let mut slots = vec![];
    let mut kids = vec![];
    let mut pay = None;
    for f in o.fields {
        match f {
            Fld::S | Fld::X(_) => {
                // free name or a bound name in scope
                if !scope.is_empty() && r.chance(1, 2) {
                    slots.push(*r.pick(scope));
                } else {
                    slots.push(r.below(c.ns) as Name);
                }
            }
            Fld::C(k) => {
                let mut bs = vec![];
                for _ in 0..*k {
                    let b = if c.shadow && r.chance(1, 2) {
                        r.below(c.ns) as Name
                    } else {
                        *next_binder += 1;
                        *next_binder
                    };
                    bs.push(b);
                }
                let n = scope.len();
                scope.extend(bs.iter().copied());
                let kid = gen_term(r, c, depth.saturating_sub(1), next_binder, scope);
                scope.truncate(n);
                kids.push((bs, kid));
            }
            Fld::P => pay = Some(payload_token(o.name, r)),
        }
    }
    Tm { op: o.name, slots, kids, pay }
}

pub fn gen_closed_term(r: &mut Rng, c: &GenCfg) -> Tm {
    for _ in 0..200 {
        let mut nb = BINDER_BASE;
        let d = r.below(c.max_depth + 1);
        let t = gen_term(r, c, d, &mut nb, &mut vec![]);
        // Bind<Bind<..>> with the same name twice is ill-formed input (two binders of one node with one name)
        if t.max_names() <= c.max_names && well_formed(&t) {
            return t;
        }
    }
    // fallback: the simplest leaf of the language
    let o = c.ops.iter().filter_map(|o| c.lang.op(o)).find(|o| o.fields.is_empty()).or_else(|| c.ops.iter().filter_map(|o| c.lang.op(o)).find(|o| o.fields.iter().all(|f| matches!(f, Fld::P)))).expect("language without a constant leaf");
    Tm { op: o.name, slots: vec![], kids: vec![], pay: if o.fields.is_empty() { None } else { Some(payload_token(o.name, r)) } }
}

/// no node binds the same name twice in one binder list
pub fn well_formed(t: &Tm) -> bool {
    for (bs, k) in &t.kids {
        for i in 0..bs.len() {
            for j in 0..i {
                if bs[i] == bs[j] {
                    return false;
                }
            }
        }
        if !well_formed(k) {
            return false;
        }
    }
    true
}

#[derive(Clone, Debug)]
pub enum HOp {
    Add(usize),
    Union(usize, usize),
}

#[derive(Clone, Debug)]
pub struct History {
    pub terms: Vec<Tm>,
    pub ops: Vec<HOp>,
    pub ns: usize,
    pub families: Vec<&'static str>,
}

impl History {
    pub fn text(&self, lang: &LangSig) -> Vec<String> {
        self.ops
            .iter()
            .map(|o| match o {
                HOp::Add(i) => format!("add {}", self.terms[*i].text(lang, &pname)),
                HOp::Union(a, b) => format!("union {} = {}", self.terms[*a].text(lang, &pname), self.terms[*b].text(lang, &pname)),
            })
            .collect()
    }
    pub fn json(&self, lang: &LangSig) -> J {
        J::obj(vec![("history", J::arr_s(&self.text(lang))), ("families", J::A(self.families.iter().map(|f| J::s(*f)).collect()))])
    }
    pub fn hash(&self, lang: &LangSig) -> u64 {
        let mut h = 0;
        for l in self.text(lang) {
            h = Rng::mix(h, crate::rng::fnv(&l));
        }
        h
    }
    pub fn max_names(&self) -> usize {
        self.terms.iter().map(|t| t.max_names()).max().unwrap_or(0)
    }
}

fn permute_slots(t: &Tm, r: &mut Rng) -> Tm {
    // permute the free names of t by a random non-identity permutation (cycle or transposition)
    let fv: Vec<Name> = t.canon().fv().into_iter().collect();
    if fv.len() < 2 {
        return t.clone();
    }
    let mut img = fv.clone();
    match r.below(3) {
        0 => {
            // transposition
            let i = r.below(fv.len());
            let mut j = r.below(fv.len());
            if i == j {
                j = (j + 1) % fv.len();
            }
            img.swap(i, j);
        }
        1 => img.rotate_left(1), // full cycle
        _ => {
            r.shuffle(&mut img);
            if img == fv {
                img.rotate_left(1);
            }
        }
    }
    let m: BTreeMap<Name, Name> = fv.iter().copied().zip(img.into_iter()).collect();
    t.canon().rename(&m)
}

/// History generator for the congruence properties (C01/C02/C08/C09/C11/C12/C13).
pub fn gen_history(r: &mut Rng, c: &GenCfg, max_terms: usize, max_unions: usize) -> History {
    let nterms = r.range(2, max_terms.max(2));
    let mut terms: Vec<Tm> = vec![];
    let mut fam: Vec<&'static str> = vec![];
    let mut planned_unions: Vec<(usize, usize)> = vec![];
    // unions that have to happen in this order (after the shuffled ones)
    let mut ordered_unions: Vec<(usize, usize)> = vec![];
    // congruence chain: wrappers u(a), u(b) merged by congruence when a = b, then the surviving wrapper class is merged into a
    // class i that has more users, then i loses a slot - the handle of u(a) is two union-find hops away from the leader and is
    // not touched in between (a stale-path scenario for old handles)
    if r.chance(1, 6) && c.ops.contains(&"u") && c.ops.contains(&"app") && c.ops.contains(&"f") && c.ops.contains(&"k") && c.ops.contains(&"c") && c.max_names >= 3 {
        let (x, y, z) = (0 as Name, 1 as Name, 2 as Name);
        let a = Tm::leaf("f", vec![x, y]);
        let b = Tm::leaf("k", vec![x, y]);
        let wrap = |t: &Tm| Tm::node("u", vec![], vec![(vec![], t.clone())]);
        let cst = || Tm::leaf("c", vec![]);
        let i = Tm::node("app", vec![], vec![(vec![], Tm::leaf("f", vec![y, x])), (vec![], cst())]);
        let i_user = wrap(&i);
        let i_user2 = Tm::node("app", vec![], vec![(vec![], cst()), (vec![], i.clone())]);
        let i2 = Tm::node("app", vec![], vec![(vec![], Tm::leaf("f", vec![z, x])), (vec![], cst())]);
        let base = terms.len();
        terms.extend([a.clone(), b.clone(), wrap(&a), wrap(&b), i, i_user, i_user2, i2]);
        ordered_unions.push((base, base + 1));
        ordered_unions.push((base + 3, base + 4));
        ordered_unions.push((base + 4, base + 7));
        fam.push("congruence-chain");
    }
    // full symmetry with pinned users: a three-slot leaf made fully symmetric by a transposition and a 3-cycle (a group whose
    // stabiliser chain has two levels), used by several parents that pin its slots through a second child / a slot argument:
    // all parents over permuted invocations are equal, a parent with a slot argument keeps exactly two symmetries
    if r.chance(1, 8) && c.max_names >= 3 && c.ns >= 3 && ["h", "k"].iter().all(|o| c.ops.contains(o)) && (c.ops.contains(&"pair") || c.ops.contains(&"app")) {
        let pop = if c.ops.contains(&"pair") && (!c.ops.contains(&"app") || r.chance(1, 2)) { "pair" } else { "app" };
        let h3 = |p: [Name; 3]| Tm::leaf("h", p.to_vec());
        let base = terms.len();
        terms.extend([h3([0, 1, 2]), h3([1, 0, 2]), h3([1, 2, 0])]);
        planned_unions.push((base, base + 1));
        planned_unions.push((base, base + 2));
        let mut perms: Vec<[Name; 3]> = vec![[0, 1, 2], [1, 0, 2], [0, 2, 1], [2, 1, 0], [1, 2, 0], [2, 0, 1]];
        r.shuffle(&mut perms);
        perms.truncate(r.range(3, 6));
        for p in perms {
            terms.push(Tm::node(pop, vec![], vec![(vec![], h3(p)), (vec![], Tm::leaf("k", vec![0, 1]))]));
        }
        if c.ops.contains(&"idx") {
            for x in 0..r.below(3) {
                terms.push(Tm::node("idx", vec![x as Name], vec![(vec![], h3([0, 1, 2]))]));
            }
        }
        fam.push("full-symmetry-pinned-users");
    }
    // symmetry and redundancy asserted by one equation: h(x,y,z) = h(y,x,w) says that the third argument does not matter *and*
    // that the first two may be exchanged; next to it the pure redundancy h(x,y,z) = h(x,y,w) (either order of the two unions
    // has to give the same class: one slot less, two symmetries)
    if r.chance(1, 8) && c.ns >= 4 && c.max_names >= 3 && c.ops.contains(&"h") {
        let base = terms.len();
        terms.extend([Tm::leaf("h", vec![0, 1, 2]), Tm::leaf("h", vec![1, 0, 3]), Tm::leaf("h", vec![0, 1, 3])]);
        planned_unions.push((base, base + 1));
        if r.chance(2, 3) {
            planned_unions.push((base, base + 2));
        }
        if c.ops.contains(&"u") {
            terms.push(Tm::node("u", vec![], vec![(vec![], Tm::leaf("h", vec![1, 0, 2]))]));
        }
        fam.push("symmetry-with-redundancy");
    }
    // permuted self-reference next to an asserted symmetry: L(x..) = W(L(pi x..)) and L(x..) = L(sigma x..). Every symmetry of L is
    // carried through the self-reference to its conjugates under pi, so the group of L is the closure of sigma under conjugation by pi -
    // found only by repeating the self-symmetry detection of the W node until nothing changes (a rotation pi on four slots with one
    // transposition sigma needs several rounds and ends in the full symmetric group)
    if r.chance(1, 8) && c.max_names >= 3 && c.ns >= 3 && c.ops.contains(&"h") && (c.ops.contains(&"u") || c.ops.contains(&"app")) {
        let k = if c.ops.contains(&"q") && c.max_names >= 4 && c.ns >= 4 && r.chance(2, 3) { 4 } else { 3 };
        let op = if k == 4 { "q" } else { "h" };
        let id: Vec<Name> = (0..k as Name).collect();
        let mut rp = |r: &mut Rng| -> Vec<Name> {
            loop {
                let mut v = id.clone();
                match r.below(3) {
                    0 => v.rotate_left(1),
                    1 => v.swap(r.below(k - 1), k - 1),
                    _ => r.shuffle(&mut v),
                }
                if v != id {
                    return v;
                }
            }
        };
        let (pi, sigma) = (rp(r), rp(r));
        let wrap = |t: Tm, r: &mut Rng| -> Tm {
            let cst = Tm::leaf("c", vec![]);
            match r.below(3) {
                0 if c.ops.contains(&"app") && c.ops.contains(&"c") => Tm::node("app", vec![], vec![(vec![], t), (vec![], cst)]),
                1 if c.ops.contains(&"app") && c.ops.contains(&"c") => Tm::node("app", vec![], vec![(vec![], cst), (vec![], t)]),
                _ if c.ops.contains(&"u") => Tm::node("u", vec![], vec![(vec![], t)]),
                _ => Tm::node("app", vec![], vec![(vec![], t.clone()), (vec![], t)]),
            }
        };
        let base = terms.len();
        terms.push(Tm::leaf(op, id.clone()));
        terms.push(wrap(Tm::leaf(op, pi.clone()), r));
        terms.push(Tm::leaf(op, sigma.clone()));
        if r.chance(1, 2) {
            ordered_unions.push((base, base + 1));
            ordered_unions.push((base, base + 2));
        } else {
            planned_unions.push((base, base + 1));
            planned_unions.push((base, base + 2));
        }
        // a few arrangements that are (or are not) consequences
        for _ in 0..r.below(3) {
            terms.push(Tm::leaf(op, rp(r)));
        }
        fam.push("self-reference-with-symmetry");
    }
    while terms.len() < nterms {
        let roll = r.below(13);
        if roll < 5 || terms.is_empty() {
            terms.push(gen_closed_term(r, c));
        } else if roll >= 10 {
            // users of a (potentially) symmetric class: w(t) and w(sigma t), or a node using t and sigma t side by side
            let i = r.below(terms.len());
            let t = terms[i].canon();
            let pt = permute_slots(&terms[i], r).canon();
            let fv: Vec<Name> = t.fv().into_iter().collect();
            if pt != t && fv.len() >= 2 {
                let b = fv[r.below(fv.len())];
                let wrap = |x: Tm, k: usize| -> Tm {
                    match k {
                        0 => Tm::node("lam", vec![], vec![(vec![b], x)]),
                        1 => Tm::node("idx", vec![b], vec![(vec![], x)]),
                        2 => Tm::node("u", vec![], vec![(vec![], x)]),
                        3 => Tm::node("sum", vec![], vec![(vec![], Tm::leaf("c", vec![])), (vec![b], x)]),
                        _ => Tm::node("let", vec![], vec![(vec![b], x), (vec![], Tm::leaf("d", vec![]))]),
                    }
                };
                let mut newt = vec![];
                if roll == 10 {
                    let k = r.below(5);
                    newt.push(wrap(t.clone(), k));
                    newt.push(wrap(pt.clone(), k));
                } else if roll == 11 {
                    let op = *r.pick(&["app", "pair"]);
                    newt.push(Tm::node(op, vec![], vec![(vec![], t.clone()), (vec![], pt.clone())]));
                    if r.chance(1, 2) {
                        newt.push(Tm::node(op, vec![], vec![(vec![], pt.clone()), (vec![], t.clone())]));
                    }
                } else {
                    // a second class with the same arity, to be united with the symmetric one later
                    let op2 = match t.op { "f" => "k", "k" => "f", o => o };
                    let mut t2 = t.clone();
                    t2.op = op2;
                    if op2 != t.op {
                        newt.push(Tm::node("pair", vec![], vec![(vec![], t2.clone()), (vec![], { let mut p2 = pt.clone(); p2.op = op2; p2 })]));
                        newt.push(t2);
                    }
                }
                let ok = newt.iter().all(|x| x.max_names() <= c.max_names && c.ops.contains(&x.op)) && c.ops.contains(&"c") && !newt.is_empty();
                if ok {
                    fam.push("symmetric-user");
                    terms.push(pt);
                    let pi = terms.len() - 1;
                    if r.chance(3, 4) {
                        planned_unions.push((i, pi));
                    }
                    for x in newt {
                        terms.push(x);
                    }
                    if roll == 12 && r.chance(3, 4) {
                        // unite the symmetric class with the other class of the same arity (after its users exist)
                        planned_unions.push((i, terms.len() - 1));
                    }
                }
            }
        } else if roll == 5 {
            // permuted copy of an earlier term (symmetry family: transposition, 3-cycle, 4-cycle, product)
            let i = r.below(terms.len());
            let t = permute_slots(&terms[i], r);
            if t.canon() != terms[i].canon() {
                fam.push("permuted-copy");
                terms.push(t);
                if r.chance(3, 4) {
                    planned_unions.push((i, terms.len() - 1));
                }
            }
        } else if roll == 6 {
            // redundancy family: a term over fewer names, to be united with an earlier multi-slot term
            let i = r.below(terms.len());
            let fv: Vec<Name> = terms[i].fv().into_iter().collect();
            if fv.len() >= 1 {
                let keep = r.below(fv.len());
                let small = if keep == 0 {
                    Tm::leaf(*r.pick(&["c", "d"]), vec![])
                } else if keep == 1 {
                    Tm::leaf(*r.pick(&["g", "var"]), vec![fv[r.below(fv.len())]])
                } else {
                    let a = fv[r.below(fv.len())];
                    let mut b = fv[r.below(fv.len())];
                    if b == a {
                        b = fv[(fv.iter().position(|x| *x == a).unwrap() + 1) % fv.len()];
                    }
                    Tm::leaf(*r.pick(&["f", "k"]), vec![a, b])
                };
                if small.max_names() <= c.max_names {
                    fam.push("redundancy");
                    terms.push(small);
                    if r.chance(3, 4) {
                        planned_unions.push((i, terms.len() - 1));
                    }
                }
            }
        } else if roll == 7 {
            // self reference: t = u(t) or t = app(t', c) with t' a permuted invocation of t
            let i = r.below(terms.len());
            let inner = if r.chance(1, 2) { permute_slots(&terms[i], r) } else { terms[i].clone() };
            let t = match r.below(3) {
                0 => Tm::node("u", vec![], vec![(vec![], inner)]),
                1 => Tm::node("app", vec![], vec![(vec![], inner), (vec![], Tm::leaf("c", vec![]))]),
                _ => {
                    // under a binder that binds one of its free names
                    let fv: Vec<Name> = inner.fv().into_iter().collect();
                    let b = if fv.is_empty() { BINDER_BASE + 77 } else { fv[r.below(fv.len())] };
                    Tm::node("lam", vec![], vec![(vec![b], inner)])
                }
            };
            if t.max_names() <= c.max_names && c.ops.contains(&t.op) {
                fam.push("self-reference");
                terms.push(t);
                if r.chance(3, 4) {
                    planned_unions.push((i, terms.len() - 1));
                }
            }
        } else if roll == 8 && r.chance(1, 2) && c.ops.contains(&"app") && c.ops.contains(&"var") && (c.ops.contains(&"bb") || c.ops.contains(&"lam")) {
            // a binder over a context that holds an earlier term next to the bound variables: bb a b (app (f a b) T), lam a (app (var a) T).
            // T keeps its own class; when T is united with something, the binder node changes by congruence under its binders
            let i = r.below(terms.len());
            let t = terms[i].clone();
            let (a, b) = (BINDER_BASE + 300 + terms.len() as Name * 2, BINDER_BASE + 301 + terms.len() as Name * 2);
            let two = c.ops.contains(&"bb") && c.ops.contains(&"f") && r.chance(2, 3);
            let w = if two {
                let inner = Tm::node("app", vec![], vec![(vec![], Tm::leaf("f", if r.chance(1, 2) { vec![a, b] } else { vec![b, a] })), (vec![], t)]);
                Tm::node("bb", vec![], vec![(vec![a, b], inner)])
            } else {
                let inner = Tm::node("app", vec![], vec![(vec![], Tm::leaf("var", vec![a])), (vec![], t)]);
                Tm::node("lam", vec![], vec![(vec![a], inner)])
            };
            if w.max_names() <= c.max_names {
                fam.push("binder-over-context");
                terms.push(w);
                if r.chance(1, 2) && terms.len() >= 3 {
                    let j = r.below(terms.len() - 1);
                    if j != i {
                        planned_unions.push((i, j));
                    }
                }
            }
        } else if roll == 8 {
            // duplicate, or an alpha variant whose bound names sort the other way round
            let i = r.below(terms.len());
            fam.push("duplicate");
            if r.chance(1, 2) && !c.shadow {
                let mut next = crate::tm::NUM_BASE + 400;
                terms.push(terms[i].alpha_variant(&mut next));
            } else {
                terms.push(terms[i].clone());
            }
        } else {
            // same operator skeleton with different slot arrangement (repeated slots etc.)
            let i = r.below(terms.len());
            let mut t = terms[i].clone();
            if !t.slots.is_empty() {
                let j = r.below(t.slots.len());
                t.slots[j] = r.below(c.ns) as Name;
                if t.max_names() <= c.max_names {
                    fam.push("slot-variant");
                    terms.push(t);
                }
            }
        }
    }
    let mut ops: Vec<HOp> = vec![];
    let nun = r.range(1, max_unions.max(1));
    // interleave: adds first for the terms that are united early, the rest mixed
    let mut unions: Vec<(usize, usize)> = planned_unions.clone();
    while unions.len() < nun {
        unions.push((r.below(terms.len()), r.below(terms.len())));
    }
    r.shuffle(&mut unions);
    unions.truncate(nun.max(planned_unions.len().min(nun + 2)));
    let interleave = r.chance(1, 2);
    let mut added = vec![false; terms.len()];
    if !interleave {
        for i in 0..terms.len() {
            ops.push(HOp::Add(i));
            added[i] = true;
        }
    }
    // the terms of an ordered chain are all inserted before its first union (the handles are then left alone)
    if !ordered_unions.is_empty() {
        let lo = ordered_unions.iter().map(|u| u.0.min(u.1)).min().unwrap();
        for i in lo..(lo + 8).min(terms.len()) {
            if !added[i] {
                ops.push(HOp::Add(i));
                added[i] = true;
            }
        }
    }
    let n_shuffled = unions.len();
    unions.extend(ordered_unions.iter().copied());
    for (ui, (a, b)) in unions.into_iter().enumerate() {
        for x in [a, b] {
            if !added[x] {
                ops.push(HOp::Add(x));
                added[x] = true;
            }
        }
        let (a, b) = if ui >= n_shuffled || r.chance(1, 2) { (a, b) } else { (b, a) };
        ops.push(HOp::Union(a, b));
    }
    for i in 0..terms.len() {
        if !added[i] {
            ops.push(HOp::Add(i));
        }
    }
    fam.sort();
    fam.dedup();
    History { terms, ops, ns: c.ns, families: fam }
}

/// Delta-debugging style minimisation of a history with respect to a predicate ("still fails the same way").
pub fn shrink_history(h: &History, still_fails: &dyn Fn(&History) -> bool) -> History {
    let mut cur = h.clone();
    let mut budget = 400;
    loop {
        let mut progress = false;
        // 1. drop operations (unions first, then adds)
        let mut i = cur.ops.len();
        while i > 0 && budget > 0 {
            i -= 1;
            let mut c = cur.clone();
            c.ops.remove(i);
            if c.ops.is_empty() {
                continue;
            }
            budget -= 1;
            if still_fails(&c) {
                cur = c;
                progress = true;
            }
        }
        // 2. simplify terms: replace a term by one of its closed subterms, or a child by a constant
        for ti in 0..cur.terms.len() {
            if budget == 0 {
                break;
            }
            let used = cur.ops.iter().any(|o| match o {
                HOp::Add(i) => *i == ti,
                HOp::Union(a, b) => *a == ti || *b == ti,
            });
            if !used {
                continue;
            }
            for cand in simpler_terms(&cur.terms[ti]) {
                if budget == 0 {
                    break;
                }
                let mut c = cur.clone();
                c.terms[ti] = cand;
                budget -= 1;
                if still_fails(&c) {
                    cur = c;
                    progress = true;
                    break;
                }
            }
        }
        if !progress || budget == 0 {
            break;
        }
    }
    // drop unused terms and renumber
    let mut map = BTreeMap::new();
    let mut terms = vec![];
    let mut ops = vec![];
    for o in &cur.ops {
        let mut idx = |i: usize, terms: &mut Vec<Tm>| -> usize {
            *map.entry(i).or_insert_with(|| {
                terms.push(cur.terms[i].clone());
                terms.len() - 1
            })
        };
        ops.push(match o {
            HOp::Add(i) => HOp::Add(idx(*i, &mut terms)),
            HOp::Union(a, b) => {
                let x = idx(*a, &mut terms);
                let y = idx(*b, &mut terms);
                HOp::Union(x, y)
            }
        });
    }
    History { terms, ops, ns: cur.ns, families: cur.families.clone() }
}

fn simpler_terms(t: &Tm) -> Vec<Tm> {
    let mut out = vec![];
    // closed immediate subterms (no binder involved)
    for (bs, k) in &t.kids {
        if bs.is_empty() {
            out.push(k.clone());
        }
    }
    // replace one child by the constant c
    for i in 0..t.kids.len() {
        if t.kids[i].1.op != "c" {
            let mut t2 = t.clone();
            t2.kids[i].1 = Tm::leaf("c", vec![]);
            out.push(t2);
        }
    }
    // recurse into children
    for i in 0..t.kids.len() {
        for k2 in simpler_terms(&t.kids[i].1) {
            let mut t2 = t.clone();
            t2.kids[i].1 = k2;
            out.push(t2);
        }
    }
    out.truncate(12);
    out
}
