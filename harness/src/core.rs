//! Worker-side framework: case runner (fresh thread, panic capture), failure records, report.
use crate::json::J;
use crate::rng::Rng;
use std::cell::RefCell;
use std::collections::{BTreeMap, BTreeSet};
use std::panic::{catch_unwind, AssertUnwindSafe};

pub const VARIANT: &str = if cfg!(feature = "explanations") {
    if cfg!(feature = "checks") {
        "checks,explanations"
    } else {
        "explanations"
    }
} else if cfg!(feature = "checks") {
    "checks"
} else {
    "default"
};

thread_local! {
    static LAST_PANIC: RefCell<Option<PanicInfo>> = RefCell::new(None);
}

#[derive(Clone, Debug)]
pub struct PanicInfo {
    pub loc: String,
    pub msg: String,
}

impl PanicInfo {
    pub fn norm_msg(&self) -> String {
        normalize(&self.msg)
    }
    /// call-site signature: file:line + message with digits normalised.
    pub fn site(&self) -> String {
        format!("{} :: {}", self.loc, self.norm_msg())
    }
}

/// Normalise a panic message into a call-site signature: digits -> N, slot names -> $S, contents of brackets / braces /
/// quotes / backticks dropped, whitespace collapsed, cut to 90 chars. (Messages embed slot names, ids and user text.)
pub fn normalize(m: &str) -> String {
    let mut out = String::new();
    let mut depth = 0i32; // inside [...] or {...}
    let mut quote: Option<char> = None;
    let mut in_num = false;
    let mut in_slot = false;
    let mut last_ws = false;
    for c in m.chars() {
        if let Some(q) = quote {
            if c == q {
                quote = None;
                out.push(q);
            }
            continue;
        }
        if depth > 0 {
            if c == '[' || c == '{' {
                depth += 1;
            } else if c == ']' || c == '}' {
                depth -= 1;
                if depth == 0 {
                    out.push_str("..");
                    out.push(c);
                }
            }
            continue;
        }
        if in_slot {
            if c.is_alphanumeric() || c == '_' {
                continue;
            }
            in_slot = false;
        }
        match c {
            '[' | '{' => {
                depth = 1;
                out.push(c);
                in_num = false;
                last_ws = false;
            }
            '"' | '`' => {
                quote = Some(c);
                out.push(c);
                in_num = false;
                last_ws = false;
            }
            '$' => {
                out.push_str("$S");
                in_slot = true;
                in_num = false;
                last_ws = false;
            }
            c if c.is_ascii_digit() => {
                if !in_num {
                    out.push('N');
                }
                in_num = true;
                last_ws = false;
            }
            c if c.is_whitespace() => {
                in_num = false;
                if !last_ws {
                    out.push(' ');
                }
                last_ws = true;
            }
            c => {
                in_num = false;
                last_ws = false;
                out.push(c);
            }
        }
        if out.len() > 90 {
            break;
        }
    }
    out
}

pub fn install_panic_hook() {
    std::panic::set_hook(Box::new(|info| {
        let loc = info
            .location()
            .map(|l| {
                let f = l.file();
                // keep path relative to the repository if possible
                // keep paths relative to the repository root, wherever the repository copy lives
                // (files of the harness crate itself are reported relative to the crate root by rustc: mark them)
                let rel;
                let f = if !f.starts_with('/') {
                    rel = format!("harness/{f}");
                    rel.as_str()
                } else if f.contains("/.cargo/") || f.contains("/rustc/") || f.contains("/harness/") {
                    f
                } else if let Some(i) = f.find("/slotted-egraphs-derive/") {
                    &f[i + 1..]
                } else if let Some(i) = f.find("/src/") {
                    &f[i + 1..]
                } else {
                    f
                };
                format!("{}:{}", f, l.line())
            })
            .unwrap_or_else(|| "?".to_string());
        let msg = if let Some(s) = info.payload().downcast_ref::<&str>() {
            s.to_string()
        } else if let Some(s) = info.payload().downcast_ref::<String>() {
            s.clone()
        } else {
            "<non-string panic>".to_string()
        };
        if std::env::var("VERIF_BT").is_ok() {
            eprintln!("PANIC at {loc}: {msg}\n{}", std::backtrace::Backtrace::force_capture());
        }
        LAST_PANIC.with(|p| *p.borrow_mut() = Some(PanicInfo { loc, msg }));
    }));
}

/// Run `f`, converting a panic into `Err(PanicInfo)`.
pub fn guard<T>(f: impl FnOnce() -> T) -> Result<T, PanicInfo> {
    LAST_PANIC.with(|p| *p.borrow_mut() = None);
    match catch_unwind(AssertUnwindSafe(f)) {
        Ok(v) => Ok(v),
        Err(_) => Err(LAST_PANIC.with(|p| p.borrow_mut().take()).unwrap_or(PanicInfo {
            loc: "?".into(),
            msg: "?".into(),
        })),
    }
}

#[derive(Clone, Debug)]
pub struct Fail {
    /// oracle kind, e.g. "panic", "check", "unsound", "incomplete"
    pub kind: String,
    /// signature that identifies the finding (without property / variant)
    pub sig: String,
    /// human readable description
    pub detail: String,
    /// the case (history, inputs) as JSON
    pub case: J,
}

impl Fail {
    pub fn new(kind: &str, sig: impl Into<String>, detail: impl Into<String>, case: J) -> Fail {
        Fail { kind: kind.into(), sig: sig.into(), detail: detail.into(), case }
    }
    /// a panic while the harness evaluates its own oracle: if it did not originate in the repository's sources it is a defect of
    /// the harness (reported as such, never as a violation of the property)
    pub fn check_panic(p: &PanicInfo, what: &str, case: J) -> Fail {
        let in_repo = p.loc.starts_with("src/") || p.loc.starts_with("slotted-egraphs-derive/");
        Fail::panic(if in_repo { "panic" } else { "harness-panic" }, p, what, case)
    }
    pub fn panic(kind: &str, p: &PanicInfo, what: &str, case: J) -> Fail {
        Fail {
            kind: kind.into(),
            sig: p.site(),
            detail: format!("{what}: panicked at {}: {}", p.loc, p.msg.chars().take(400).collect::<String>()),
            case,
        }
    }
}

/// What one case reports back.
#[derive(Default)]
pub struct CaseOut {
    pub counters: BTreeMap<&'static str, u64>,
    /// hash of the case if it is non-trivial by the property's rule
    pub nontrivial: Option<u64>,
    /// further hashes of distinct non-trivial items observed inside this case
    pub nt_many: Vec<u64>,
    pub fails: Vec<Fail>,
    pub sample: Option<J>,
    pub inconclusive: Option<String>,
}

impl CaseOut {
    pub fn add(&mut self, k: &'static str, n: u64) {
        *self.counters.entry(k).or_insert(0) += n;
    }
    pub fn inc(&mut self, k: &'static str) {
        self.add(k, 1);
    }
    pub fn fail(&mut self, f: Fail) {
        self.fails.push(f);
    }
}

pub struct Args {
    pub prop: String,
    pub seed: u64,
    pub shard: u64,
    pub nshards: u64,
    pub cases: u64,
    pub params: BTreeMap<String, String>,
    pub one: Option<u64>,
}

impl Args {
    pub fn param_u(&self, k: &str, d: u64) -> u64 {
        self.params.get(k).and_then(|v| v.parse().ok()).unwrap_or(d)
    }
    pub fn param_s(&self, k: &str, d: &str) -> String {
        self.params.get(k).cloned().unwrap_or_else(|| d.to_string())
    }
}

pub struct Rep {
    pub counters: BTreeMap<String, u64>,
    pub nt: BTreeSet<u64>,
    pub samples: Vec<J>,
    pub fails: Vec<(u64, Fail)>,
    pub fail_count: BTreeMap<String, u64>,
    pub evaluations: u64,
    pub inconclusive: u64,
    pub inconclusive_why: BTreeMap<String, u64>,
    pub extra: BTreeMap<String, J>,
}

impl Rep {
    pub fn new() -> Rep {
        Rep {
            counters: BTreeMap::new(),
            nt: BTreeSet::new(),
            samples: vec![],
            fails: vec![],
            fail_count: BTreeMap::new(),
            evaluations: 0,
            inconclusive: 0,
            inconclusive_why: BTreeMap::new(),
            extra: BTreeMap::new(),
        }
    }
    pub fn absorb(&mut self, case_seed: u64, o: CaseOut) {
        self.evaluations += 1;
        for (k, v) in o.counters {
            *self.counters.entry(k.to_string()).or_insert(0) += v;
        }
        if let Some(h) = o.nontrivial {
            self.nt.insert(h);
        }
        for h in o.nt_many {
            self.nt.insert(h);
        }
        if let Some(s) = o.sample {
            if self.samples.len() < 3 {
                self.samples.push(s);
            }
        }
        if let Some(w) = o.inconclusive {
            self.inconclusive += 1;
            *self.inconclusive_why.entry(w).or_insert(0) += 1;
        }
        for f in o.fails {
            let key = format!("{}|{}", f.kind, f.sig);
            let c = self.fail_count.entry(key).or_insert(0);
            *c += 1;
            // keep at most 2 concrete examples per signature
            if *c <= 2 {
                self.fails.push((case_seed, f));
            }
        }
    }
    pub fn emit(&self, args: &Args) {
        for (cs, f) in &self.fails {
            let j = J::obj(vec![
                ("t", J::s("fail")),
                ("kind", J::s(f.kind.clone())),
                ("sig", J::s(f.sig.clone())),
                ("variant", J::s(VARIANT)),
                ("detail", J::s(f.detail.clone())),
                ("case_seed", J::S(cs.to_string())),
                ("case", f.case.clone()),
            ]);
            println!("{}", j.to_string());
        }
        let nt: Vec<J> = self.nt.iter().map(|h| J::S(format!("{:x}", h))).collect();
        let j = J::obj(vec![
            ("t", J::s("summary")),
            ("prop", J::s(args.prop.clone())),
            ("variant", J::s(VARIANT)),
            ("shard", J::I(args.shard as i64)),
            ("evaluations", J::I(self.evaluations as i64)),
            ("inconclusive", J::I(self.inconclusive as i64)),
            (
                "inconclusive_why",
                J::O(self.inconclusive_why.iter().map(|(k, v)| (k.clone(), J::I(*v as i64))).collect()),
            ),
            ("counters", J::O(self.counters.iter().map(|(k, v)| (k.clone(), J::I(*v as i64))).collect())),
            ("fail_count", J::O(self.fail_count.iter().map(|(k, v)| (k.clone(), J::I(*v as i64))).collect())),
            ("samples", J::A(self.samples.clone())),
            ("nt", J::A(nt)),
            ("extra", J::O(self.extra.clone())),
        ]);
        println!("{}", j.to_string());
    }
}

/// Wall-clock watchdog per case (seconds); a case that exceeds it is inconclusive and ends the shard.
pub static CASE_TIMEOUT_S: std::sync::atomic::AtomicU64 = std::sync::atomic::AtomicU64::new(40);
pub static RESUME_AT: std::sync::atomic::AtomicU64 = std::sync::atomic::AtomicU64::new(u64::MAX);
pub static ABORT: std::sync::atomic::AtomicBool = std::sync::atomic::AtomicBool::new(false);

thread_local! {
    /// seed of the case this thread runs: lets helpers that have no PRNG at hand (rule construction) vary deterministically per case
    pub static CASE_SALT: std::cell::Cell<u64> = const { std::cell::Cell::new(0) };
}
pub fn case_salt() -> u64 {
    CASE_SALT.with(|c| c.get())
}

/// Run one case in a fresh OS thread (fresh thread-local slot table, large stack).
pub fn run_case<F>(case_seed: u64, f: F) -> CaseOut
where
    F: FnOnce(&mut Rng) -> CaseOut + Send + 'static,
{
    let (tx, rx) = std::sync::mpsc::channel();
    let h = std::thread::Builder::new()
        .stack_size(256 << 20)
        .spawn(move || {
            let mut rng = Rng::new(case_seed);
            CASE_SALT.with(|c| c.set(case_seed));
            let o = match guard(|| f(&mut rng)) {
                Ok(o) => o,
                Err(p) => {
                    // a panic that escaped the property's own guards is a harness-level event:
                    // reported as a failure of kind "harness-panic" so that it is never silently dropped.
                    // (a panic that originates in the repository's sources is the crate's, wherever it was caught)
                    let mut o = CaseOut::default();
                    o.fail(Fail::check_panic(&p, "panic outside the property's own guards", J::S(format!("case_seed={case_seed}"))));
                    o
                }
            };
            let _ = tx.send(o);
        })
        .expect("spawn");
    let t = CASE_TIMEOUT_S.load(std::sync::atomic::Ordering::Relaxed);
    match rx.recv_timeout(std::time::Duration::from_secs(t)) {
        Ok(o) => {
            let _ = h.join();
            o
        }
        Err(std::sync::mpsc::RecvTimeoutError::Timeout) => {
            // the thread cannot be stopped; the shard ends here (remaining cases are counted as inconclusive)
            ABORT.store(true, std::sync::atomic::Ordering::Relaxed);
            let mut o = CaseOut::default();
            o.inconclusive = Some(format!("case exceeded the {t}s watchdog"));
            o
        }
        Err(_) => {
            let mut o = CaseOut::default();
            o.inconclusive = Some("case thread died".into());
            o
        }
    }
}

/// Standard loop: cases `i` with `i % nshards == shard`, `i < cases`; case seed = mix(seed, i).
pub fn drive<F>(args: &Args, rep: &mut Rep, f: F)
where
    F: Fn(&mut Rng, u64) -> CaseOut + Send + Sync + Clone + 'static,
{
    if let Some(cs) = args.one {
        let g = f.clone();
        let o = run_case(cs, move |r| g(r, cs));
        rep.absorb(cs, o);
        return;
    }
    let mut i = args.shard.max(args.param_u("start", 0));
    while i < args.cases {
        if ABORT.load(std::sync::atomic::Ordering::Relaxed) {
            // a case thread is running away: this process image is replaced (main) and the shard resumes at `i`
            RESUME_AT.store(i, std::sync::atomic::Ordering::Relaxed);
            return;
        }
        let cs = Rng::mix(args.seed, i);
        let g = f.clone();
        let o = run_case(cs, move |r| g(r, cs));
        if let Some(w) = &o.inconclusive {
            if w.contains("watchdog") {
                eprintln!("WATCHDOG prop={} case_seed={}", args.prop, cs);
                rep.extra.insert(format!("watchdog_case_seed_{}", cs), J::s(args.prop.clone()));
            }
        }
        rep.absorb(cs, o);
        i += args.nshards;
    }
}
