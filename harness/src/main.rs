mod cc;
mod core;
mod gen;
mod json;
mod langs;
mod props;
mod rng;
mod sym;
mod tm;

use crate::core::*;
use std::collections::BTreeMap;

fn main() {
    let argv: Vec<String> = std::env::args().collect();
    if argv.len() < 2 {
        eprintln!("usage: vworker <prop> [seed=S] [shard=i] [nshards=n] [cases=N] [one=CASESEED] [k=v ...]");
        std::process::exit(2);
    }
    let prop = argv[1].clone();
    if prop == "script" {
        install_panic_hook();
        props::script::main_script(&argv[2..]);
        return;
    }
    let mut params = BTreeMap::new();
    for a in &argv[2..] {
        if let Some((k, v)) = a.split_once('=') {
            params.insert(k.to_string(), v.to_string());
        }
    }
    let g = |k: &str, d: u64| params.get(k).and_then(|v| v.parse::<u64>().ok()).unwrap_or(d);
    let args = Args {
        prop: prop.clone(),
        seed: g("seed", 1),
        shard: g("shard", 0),
        nshards: g("nshards", 1).max(1),
        cases: g("cases", 100),
        one: params.get("one").and_then(|v| v.parse::<u64>().ok()),
        params: params.clone(),
    };
    install_panic_hook();
    CASE_TIMEOUT_S.store(g("case_timeout", 40), std::sync::atomic::Ordering::Relaxed);
    let mut rep = Rep::new();
    let ok = props::dispatch(&args, &mut rep);
    if !ok {
        eprintln!("unknown property {prop}");
        std::process::exit(2);
    }
    rep.emit(&args);
    let resume = RESUME_AT.load(std::sync::atomic::Ordering::Relaxed);
    if resume != u64::MAX {
        // replace this process (and its runaway case thread) by a fresh worker for the rest of the shard
        use std::io::Write;
        use std::os::unix::process::CommandExt;
        let _ = std::io::stdout().flush();
        let mut a: Vec<String> = argv[1..].iter().filter(|x| !x.starts_with("start=")).cloned().collect();
        a.push(format!("start={resume}"));
        let e = std::process::Command::new(std::env::current_exe().unwrap()).args(a).exec();
        eprintln!("exec failed: {e}");
    }
    // runaway case threads (after a watchdog timeout) must not keep the process alive
    std::process::exit(0);
}
