//! Brute-force ground congruence closure over a finite name pool (oracle for C01/C02/C09/C10/C12).
//! Ordinary ground EUF closure by signature hashing; binders are handled by opening a binder node with
//! every choice of fresh pool names, which is the alpha/equivariance rule on a finite pool.
use crate::tm::*;
use std::collections::{BTreeMap, BTreeSet, HashMap};

pub struct CC {
    pub pool: u32,
    pub ids: HashMap<Tm, usize>,
    pub terms: Vec<Tm>,
    uf: Vec<usize>,
    pub closed_upto: usize,
}

impl CC {
    pub fn new(pool: u32) -> CC {
        CC { pool, ids: HashMap::new(), terms: vec![], uf: vec![], closed_upto: 0 }
    }
    pub fn find(&mut self, mut x: usize) -> usize {
        while self.uf[x] != x {
            self.uf[x] = self.uf[self.uf[x]];
            x = self.uf[x];
        }
        x
    }
    pub fn union(&mut self, a: usize, b: usize) -> bool {
        let (a, b) = (self.find(a), self.find(b));
        if a == b {
            false
        } else {
            self.uf[a] = b;
            true
        }
    }
    /// id of a canonical ground term (inserted if new)
    pub fn id(&mut self, t: &Tm) -> usize {
        if let Some(i) = self.ids.get(t) {
            return *i;
        }
        let i = self.terms.len();
        self.terms.push(t.clone());
        self.uf.push(i);
        self.ids.insert(t.clone(), i);
        i
    }
    pub fn has(&self, t: &Tm) -> bool {
        self.ids.contains_key(t)
    }
    fn fresh_tuples(&self, fv: &BTreeSet<Name>, k: usize) -> Vec<Vec<Name>> {
        let cand: Vec<Name> = (0..self.pool).filter(|x| !fv.contains(x)).collect();
        let mut out = vec![vec![]];
        for _ in 0..k {
            let mut nx = vec![];
            for t in &out {
                for c in &cand {
                    if !t.contains(c) {
                        let mut t2: Vec<Name> = t.clone();
                        t2.push(*c);
                        nx.push(t2);
                    }
                }
            }
            out = nx;
        }
        out
    }
    /// children of a canonical ground node under a choice of fresh names for all its binders (flattened)
    fn open_kids(&self, t: &Tm, z: &[Name]) -> Vec<Tm> {
        let mut zi = 0;
        let mut out = vec![];
        for (bs, k) in &t.kids {
            let mut m = BTreeMap::new();
            for b in bs {
                m.insert(*b, z[zi]);
                zi += 1;
            }
            // k is a sub-term of a canonical term: its bound names are >= BOUND, z < BOUND: no capture.
            out.push(k.rename(&m).canon());
        }
        out
    }
    /// add all instances of `t` (canonical, names < pool) under injective renamings of its free names
    pub fn add_instances(&mut self, t: &Tm) {
        let t = t.canon();
        let fv: Vec<Name> = t.fv().into_iter().collect();
        for mm in inj_maps(&fv, self.pool) {
            let g = t.rename(&mm);
            self.id(&g);
        }
    }
    /// close the universe under taking (opened) children
    pub fn close_universe(&mut self) {
        let mut i = self.closed_upto;
        while i < self.terms.len() {
            let t = self.terms[i].clone();
            i += 1;
            let nb: usize = t.kids.iter().map(|(b, _)| b.len()).sum();
            for z in self.fresh_tuples(&t.fv(), nb) {
                for k in self.open_kids(&t, &z) {
                    self.id(&k);
                }
            }
        }
        self.closed_upto = i;
    }
    /// assert l = r for all injective instances
    pub fn assert_eq(&mut self, l: &Tm, r: &Tm) {
        let (l, r) = (l.canon(), r.canon());
        let fv: Vec<Name> = l.fv().union(&r.fv()).copied().collect();
        for mm in inj_maps(&fv, self.pool) {
            let (x, y) = (self.id(&l.rename(&mm)), self.id(&r.rename(&mm)));
            self.union(x, y);
        }
    }
    pub fn saturate(&mut self) {
        self.close_universe();
        loop {
            let mut changed = false;
            let mut table: HashMap<(&'static str, Vec<Name>, Option<String>, Vec<Name>, Vec<usize>), usize> = HashMap::new();
            for i in 0..self.terms.len() {
                let t = self.terms[i].clone();
                if t.kids.is_empty() {
                    continue;
                }
                let nb: usize = t.kids.iter().map(|(b, _)| b.len()).sum();
                for z in self.fresh_tuples(&t.fv(), nb) {
                    let ks: Vec<usize> = self
                        .open_kids(&t, &z)
                        .iter()
                        .map(|k| {
                            let id = self.ids[k];
                            self.find(id)
                        })
                        .collect();
                    let key = (t.op, t.slots.clone(), t.pay.clone(), z.clone(), ks);
                    if let Some(j) = table.get(&key) {
                        let j = *j;
                        if self.union(i, j) {
                            changed = true;
                        }
                    } else {
                        table.insert(key, i);
                    }
                }
            }
            if !changed {
                break;
            }
        }
    }
    /// are the two (not necessarily canonical) ground terms equal? Both must be in the universe.
    pub fn equal(&mut self, a: &Tm, b: &Tm) -> Option<bool> {
        let (a, b) = (a.canon(), b.canon());
        let (x, y) = (*self.ids.get(&a)?, *self.ids.get(&b)?);
        Some(self.find(x) == self.find(y))
    }
    /// the free names `t` really depends on: x in fv(t) such that t is not equal to (x z)·t for a fresh z.
    pub fn support(&mut self, t: &Tm) -> Option<BTreeSet<Name>> {
        let t = t.canon();
        let fv = t.fv();
        let z = (0..self.pool).find(|p| !fv.contains(p))?;
        let mut out = BTreeSet::new();
        for x in &fv {
            let mut m = BTreeMap::new();
            m.insert(*x, z);
            let t2 = t.rename(&m);
            if !self.equal(&t, &t2)? {
                out.insert(*x);
            }
        }
        Some(out)
    }
}

pub fn inj_maps(from: &[Name], pool: u32) -> Vec<BTreeMap<Name, Name>> {
    let mut out = vec![BTreeMap::new()];
    for f in from {
        let mut nx = vec![];
        for m in &out {
            for p in 0..pool {
                if !m.values().any(|v| *v == p) {
                    let mut m2 = m.clone();
                    m2.insert(*f, p);
                    nx.push(m2);
                }
            }
        }
        out = nx;
    }
    out
}

pub fn pool_for(m: usize, ns: usize) -> u32 {
    let m = m.max(1);
    (3 * m).max(2 * m + 1).max(ns) as u32
}
