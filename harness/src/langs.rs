//! Workload languages (define_language! instances) and their independent signatures.
#![allow(non_snake_case)]
use crate::tm::{Fld, LangSig, OpSig};
use slotted_egraphs::*;

define_language! {
    /// symbolic language: multi-slot leaves, binders in several positions
    pub enum LSym {
        F2(Slot, Slot) = "f",
        G1(Slot) = "g",
        H3(Slot, Slot, Slot) = "h",
        K2(Slot, Slot) = "k",
        Q4(Slot, Slot, Slot, Slot) = "q",
        R5(Slot, Slot, Slot, Slot, Slot) = "r5",
        R6(Slot, Slot, Slot, Slot, Slot, Slot) = "r6",
        Var(Slot) = "var",
        C() = "c",
        D() = "d",
        E() = "e",
        U(AppliedId) = "u",
        W(AppliedId) = "w",
        App(AppliedId, AppliedId) = "app",
        Pair(AppliedId, AppliedId) = "pair",
        Lam(Bind<AppliedId>) = "lam",
        Sum(AppliedId, Bind<AppliedId>) = "sum",
        Let(Bind<AppliedId>, AppliedId) = "let",
        BB(Bind<Bind<AppliedId>>) = "bb",
        // a slot argument next to a child
        Idx(Slot, AppliedId) = "idx",
        // a slot argument left of a binder (the binder may re-use the argument's name)
        SB(Slot, Bind<AppliedId>) = "sb",
        // a slot argument right of a binder (first seen after the binder's scope has ended)
        BSl(Bind<AppliedId>, Slot) = "bsl",
        // three children (the same child class can occur at non-adjacent positions)
        Ite(AppliedId, AppliedId, AppliedId) = "ite",
    }
}

pub static LSYM: LangSig = LangSig {
    name: "LSym",
    ops: &[
        OpSig { name: "f", fields: &[Fld::S, Fld::S] },
        OpSig { name: "g", fields: &[Fld::S] },
        OpSig { name: "h", fields: &[Fld::S, Fld::S, Fld::S] },
        OpSig { name: "k", fields: &[Fld::S, Fld::S] },
        OpSig { name: "q", fields: &[Fld::S, Fld::S, Fld::S, Fld::S] },
        OpSig { name: "r5", fields: &[Fld::S, Fld::S, Fld::S, Fld::S, Fld::S] },
        OpSig { name: "r6", fields: &[Fld::S, Fld::S, Fld::S, Fld::S, Fld::S, Fld::S] },
        OpSig { name: "var", fields: &[Fld::S] },
        OpSig { name: "c", fields: &[] },
        OpSig { name: "d", fields: &[] },
        OpSig { name: "e", fields: &[] },
        OpSig { name: "u", fields: &[Fld::C(0)] },
        OpSig { name: "w", fields: &[Fld::C(0)] },
        OpSig { name: "app", fields: &[Fld::C(0), Fld::C(0)] },
        OpSig { name: "pair", fields: &[Fld::C(0), Fld::C(0)] },
        OpSig { name: "lam", fields: &[Fld::C(1)] },
        OpSig { name: "sum", fields: &[Fld::C(0), Fld::C(1)] },
        OpSig { name: "let", fields: &[Fld::C(1), Fld::C(0)] },
        OpSig { name: "bb", fields: &[Fld::C(2)] },
        OpSig { name: "idx", fields: &[Fld::S, Fld::C(0)] },
        OpSig { name: "sb", fields: &[Fld::S, Fld::C(1)] },
        OpSig { name: "bsl", fields: &[Fld::C(1), Fld::S] },
        OpSig { name: "ite", fields: &[Fld::C(0), Fld::C(0), Fld::C(0)] },
    ],
};

define_language! {
    /// arithmetic over a prime field with a summation binder and a let binder
    pub enum LArith {
        Num(u32),
        Var(Slot) = "var",
        Add(AppliedId, AppliedId) = "add",
        Mul(AppliedId, AppliedId) = "mul",
        Sum(Bind<AppliedId>) = "sum",
        Let(Bind<AppliedId>, AppliedId) = "let",
    }
}

pub static LARITH: LangSig = LangSig {
    name: "LArith",
    ops: &[
        OpSig { name: "#num", fields: &[Fld::P] },
        OpSig { name: "var", fields: &[Fld::S] },
        OpSig { name: "add", fields: &[Fld::C(0), Fld::C(0)] },
        OpSig { name: "mul", fields: &[Fld::C(0), Fld::C(0)] },
        OpSig { name: "sum", fields: &[Fld::C(1)] },
        OpSig { name: "let", fields: &[Fld::C(1), Fld::C(0)] },
    ],
};

define_language! {
    /// payload language (C16/C18/C20): several payload types, a named op with a payload
    pub enum LPay {
        Lam(Bind<AppliedId>) = "lam",
        App(AppliedId, AppliedId) = "app",
        Var(Slot) = "var",
        Two(Slot, Slot) = "two",
        Cst(u32) = "cst",
        Neg(i64) = "neg",
        Flag(bool) = "flag",
        Idx(Slot, AppliedId) = "idx",
        // an operator without arguments next to the catch-all payload leaves: its text `nil` is an operator, not a Symbol
        Nil() = "nil",
        Num(u32),
        Sym(Symbol),
    }
}

pub static LPAY: LangSig = LangSig {
    name: "LPay",
    ops: &[
        OpSig { name: "lam", fields: &[Fld::C(1)] },
        OpSig { name: "app", fields: &[Fld::C(0), Fld::C(0)] },
        OpSig { name: "var", fields: &[Fld::S] },
        OpSig { name: "two", fields: &[Fld::S, Fld::S] },
        OpSig { name: "cst", fields: &[Fld::P] },
        OpSig { name: "neg", fields: &[Fld::P] },
        OpSig { name: "flag", fields: &[Fld::P] },
        OpSig { name: "idx", fields: &[Fld::S, Fld::C(0)] },
        OpSig { name: "nil", fields: &[] },
        OpSig { name: "#num", fields: &[Fld::P] },
        OpSig { name: "#sym", fields: &[Fld::P] },
    ],
};

pub fn new_lsym() -> EGraph<LSym> {
    EGraph::default()
}

define_language! {
    /// shapes language (C16): binders over bare slots, nested binders, slots around binders, payload types
    pub enum LNest {
        BS(Bind<Slot>) = "bs",
        BBS(Bind<Bind<Slot>>) = "bbs",
        NB(Slot, AppliedId) = "nb",
        B2(Bind<AppliedId>, Bind<AppliedId>) = "b2",
        Mix(Slot, Bind<AppliedId>, Slot) = "mix",
        BBA(Bind<Bind<AppliedId>>, AppliedId) = "bba",
        Three(AppliedId, AppliedId, AppliedId) = "three",
        Ch(char) = "ch",
        Big(i64) = "big",
        Tag(Symbol, Slot) = "tag",
        // several payload fields in one node, next to slots and children (the only bare leaf of this language is numeric)
        Proj(Symbol, u32, AppliedId) = "proj",
        Flag2(bool, u32) = "flag2",
        Pidx(u32, Slot, AppliedId) = "pidx",
        K() = "kk",
        // six children: a node with more than sixteen distinct free slots
        Wide(AppliedId, AppliedId, AppliedId, AppliedId, AppliedId, AppliedId) = "wide",
        N(u32),
    }
}

pub static LNEST: LangSig = LangSig {
    name: "LNest",
    ops: &[
        OpSig { name: "bs", fields: &[Fld::X(1)] },
        OpSig { name: "bbs", fields: &[Fld::X(2)] },
        OpSig { name: "nb", fields: &[Fld::S, Fld::C(0)] },
        OpSig { name: "b2", fields: &[Fld::C(1), Fld::C(1)] },
        OpSig { name: "mix", fields: &[Fld::S, Fld::C(1), Fld::S] },
        OpSig { name: "bba", fields: &[Fld::C(2), Fld::C(0)] },
        OpSig { name: "three", fields: &[Fld::C(0), Fld::C(0), Fld::C(0)] },
        OpSig { name: "ch", fields: &[Fld::P] },
        OpSig { name: "big", fields: &[Fld::P] },
        OpSig { name: "tag", fields: &[Fld::P, Fld::S] },
        OpSig { name: "proj", fields: &[Fld::P, Fld::P, Fld::C(0)] },
        OpSig { name: "flag2", fields: &[Fld::P, Fld::P] },
        OpSig { name: "pidx", fields: &[Fld::P, Fld::S, Fld::C(0)] },
        OpSig { name: "kk", fields: &[] },
        OpSig { name: "wide", fields: &[Fld::C(0), Fld::C(0), Fld::C(0), Fld::C(0), Fld::C(0), Fld::C(0)] },
        OpSig { name: "#num", fields: &[Fld::P] },
    ],
};
