//! Deterministic PRNG (xorshift64*), the only source of randomness in the harness.
#[derive(Clone, Debug)]
pub struct Rng(pub u64);

impl Rng {
    pub fn new(seed: u64) -> Rng {
        let mut r = Rng(seed.wrapping_mul(0x9E37_79B9_7F4A_7C15) ^ 0xD1B5_4A32_D192_ED03);
        if r.0 == 0 {
            r.0 = 0x1234_5678_9ABC_DEF1;
        }
        for _ in 0..4 {
            r.next();
        }
        r
    }
    pub fn mix(a: u64, b: u64) -> u64 {
        let mut x = a ^ b.wrapping_mul(0xBF58_476D_1CE4_E5B9).rotate_left(31);
        x ^= x >> 30;
        x = x.wrapping_mul(0xBF58_476D_1CE4_E5B9);
        x ^= x >> 27;
        x = x.wrapping_mul(0x94D0_49BB_1331_11EB);
        x ^= x >> 31;
        x
    }
    pub fn next(&mut self) -> u64 {
        self.0 ^= self.0 << 13;
        self.0 ^= self.0 >> 7;
        self.0 ^= self.0 << 17;
        self.0.wrapping_mul(0x2545_F491_4F6C_DD1D)
    }
    pub fn below(&mut self, n: usize) -> usize {
        if n == 0 {
            return 0;
        }
        ((self.next() >> 11) % n as u64) as usize
    }
    pub fn range(&mut self, lo: usize, hi_incl: usize) -> usize {
        lo + self.below(hi_incl - lo + 1)
    }
    pub fn chance(&mut self, num: usize, den: usize) -> bool {
        self.below(den) < num
    }
    pub fn pick<'a, T>(&mut self, v: &'a [T]) -> &'a T {
        &v[self.below(v.len())]
    }
    pub fn shuffle<T>(&mut self, v: &mut [T]) {
        for i in (1..v.len()).rev() {
            let j = self.below(i + 1);
            v.swap(i, j);
        }
    }
    pub fn perm(&mut self, n: usize) -> Vec<usize> {
        let mut v: Vec<usize> = (0..n).collect();
        self.shuffle(&mut v);
        v
    }
}

/// FNV-1a 64 over bytes: stable hash for "distinct case" accounting.
pub fn fnv(s: &str) -> u64 {
    let mut h: u64 = 0xcbf29ce484222325;
    for b in s.as_bytes() {
        h ^= *b as u64;
        h = h.wrapping_mul(0x100000001b3);
    }
    h
}
