//! Independent first-order term model. Shares no code with the crate under test:
//! scoping, alpha-equivalence, renaming, printing and reading are all implemented here.
use std::collections::{BTreeMap, BTreeSet};

#[derive(Clone, Copy, Debug, PartialEq, Eq, Hash, PartialOrd, Ord)]
pub enum Fld {
    /// a slot occurrence
    S,
    /// a child, preceded by k binders (Bind<..<AppliedId>>)
    C(usize),
    /// a payload token
    P,
    /// a slot occurrence preceded by k binders that scope over it (Bind<..<Slot>>); only used by the node model of C16
    X(usize),
}

#[derive(Clone, Debug)]
pub struct OpSig {
    /// operator name as printed; "" for bare payload variants
    pub name: &'static str,
    pub fields: &'static [Fld],
}

#[derive(Clone, Debug)]
pub struct LangSig {
    pub name: &'static str,
    pub ops: &'static [OpSig],
}

impl LangSig {
    pub fn op(&self, name: &str) -> Option<&'static OpSig> {
        self.ops.iter().find(|o| o.name == name)
    }
    pub fn sig(&self, name: &str) -> &'static [Fld] {
        self.op(name).unwrap_or_else(|| panic!("no op {name} in {}", self.name)).fields
    }
    pub fn leaves(&self) -> Vec<&'static OpSig> {
        self.ops.iter().filter(|o| !o.fields.iter().any(|f| matches!(f, Fld::C(_)))).collect()
    }
    pub fn inner(&self) -> Vec<&'static OpSig> {
        self.ops.iter().filter(|o| o.fields.iter().any(|f| matches!(f, Fld::C(_)))).collect()
    }
}

pub type Name = u32;
/// canonical bound names start here
pub const BOUND: Name = 1_000_000;

#[derive(Clone, Debug, PartialEq, Eq, Hash, PartialOrd, Ord)]
pub struct Tm {
    pub op: &'static str,
    pub slots: Vec<Name>,
    pub kids: Vec<(Vec<Name>, Tm)>,
    pub pay: Option<String>,
}

impl Tm {
    pub fn leaf(op: &'static str, slots: Vec<Name>) -> Tm {
        Tm { op, slots, kids: vec![], pay: None }
    }
    pub fn node(op: &'static str, slots: Vec<Name>, kids: Vec<(Vec<Name>, Tm)>) -> Tm {
        Tm { op, slots, kids, pay: None }
    }
    pub fn payload(op: &'static str, p: impl Into<String>) -> Tm {
        Tm { op, slots: vec![], kids: vec![], pay: Some(p.into()) }
    }

    /// free names, with correct scoping (a binder scopes over its own child only).
    pub fn fv(&self) -> BTreeSet<Name> {
        let mut s: BTreeSet<Name> = self.slots.iter().copied().collect();
        for (bs, k) in &self.kids {
            let mut f = k.fv();
            for b in bs {
                f.remove(b);
            }
            s.extend(f);
        }
        s
    }

    /// free names in order of first occurrence (left to right, pre-order).
    pub fn fv_ordered(&self, lang: &LangSig) -> Vec<Name> {
        let mut out = vec![];
        self.fv_ord_impl(lang, &mut vec![], &mut out);
        out
    }
    fn fv_ord_impl(&self, lang: &LangSig, bound: &mut Vec<Name>, out: &mut Vec<Name>) {
        let (mut si, mut ki) = (0, 0);
        for f in lang.sig(self.op) {
            match f {
                Fld::S | Fld::X(_) => {
                    let s = self.slots[si];
                    si += 1;
                    if !bound.contains(&s) && !out.contains(&s) {
                        out.push(s);
                    }
                }
                Fld::C(_) => {
                    let (bs, k) = &self.kids[ki];
                    ki += 1;
                    let n = bound.len();
                    bound.extend(bs.iter().copied());
                    k.fv_ord_impl(lang, bound, out);
                    bound.truncate(n);
                }
                Fld::P => {}
            }
        }
    }

    pub fn all_names(&self) -> BTreeSet<Name> {
        let mut s: BTreeSet<Name> = self.slots.iter().copied().collect();
        for (bs, k) in &self.kids {
            s.extend(bs.iter().copied());
            s.extend(k.all_names());
        }
        s
    }

    /// Rename free names. Only safe when no target of `m` is used as a bound name inside `self`
    /// (always true for canonical terms, whose bound names are >= BOUND, when targets are < BOUND).
    pub fn rename(&self, m: &BTreeMap<Name, Name>) -> Tm {
        Tm {
            op: self.op,
            slots: self.slots.iter().map(|x| *m.get(x).unwrap_or(x)).collect(),
            kids: self
                .kids
                .iter()
                .map(|(bs, k)| {
                    if bs.iter().any(|b| m.contains_key(b)) {
                        let mut m2 = m.clone();
                        for b in bs {
                            m2.remove(b);
                        }
                        (bs.clone(), k.rename(&m2))
                    } else {
                        (bs.clone(), k.rename(m))
                    }
                })
                .collect(),
            pay: self.pay.clone(),
        }
    }

    /// Canonical form: bound names become BOUND + de-Bruijn level; alpha-equal terms become identical.
    pub fn canon(&self) -> Tm {
        self.canon_impl(0, &BTreeMap::new())
    }
    fn canon_impl(&self, lvl: u32, env: &BTreeMap<Name, Name>) -> Tm {
        Tm {
            op: self.op,
            slots: self.slots.iter().map(|x| *env.get(x).unwrap_or(x)).collect(),
            kids: self
                .kids
                .iter()
                .map(|(bs, k)| {
                    let mut e = env.clone();
                    let mut nb = vec![];
                    let mut l = lvl;
                    for b in bs {
                        e.insert(*b, BOUND + l);
                        nb.push(BOUND + l);
                        l += 1;
                    }
                    (nb, k.canon_impl(l, &e))
                })
                .collect(),
            pay: self.pay.clone(),
        }
    }

    /// An alpha-variant: every binder gets a new name, counting *down* from `next` in traversal order - the bound names of a node
    /// with several binders come out in descending order, those of nested binders too (the generators name binders upwards).
    pub fn alpha_variant(&self, next: &mut Name) -> Tm {
        self.av_impl(next, &BTreeMap::new())
    }
    fn av_impl(&self, next: &mut Name, env: &BTreeMap<Name, Name>) -> Tm {
        Tm {
            op: self.op,
            slots: self.slots.iter().map(|x| *env.get(x).unwrap_or(x)).collect(),
            kids: self
                .kids
                .iter()
                .map(|(bs, k)| {
                    let mut e = env.clone();
                    let mut nb = vec![];
                    for b in bs {
                        e.insert(*b, *next);
                        nb.push(*next);
                        *next -= 1;
                    }
                    (nb, k.av_impl(next, &e))
                })
                .collect(),
            pay: self.pay.clone(),
        }
    }

    pub fn alpha_eq(&self, o: &Tm) -> bool {
        self.canon() == o.canon()
    }

    pub fn size(&self) -> usize {
        1 + self.kids.iter().map(|(_, k)| k.size()).sum::<usize>()
    }
    pub fn depth(&self) -> usize {
        1 + self.kids.iter().map(|(_, k)| k.depth()).max().unwrap_or(0)
    }

    /// all subterms (bodies with their bound names left free), pre-order.
    pub fn subterms(&self, out: &mut Vec<Tm>) {
        out.push(self.clone());
        for (_, k) in &self.kids {
            k.subterms(out);
        }
    }

    /// Print in the crate's s-expression syntax.
    pub fn text(&self, lang: &LangSig, names: &dyn Fn(Name) -> String) -> String {
        let s = lang.sig(self.op);
        let mut parts: Vec<String> = vec![];
        if !self.op.is_empty() && !self.op.starts_with('#') {
            parts.push(self.op.to_string());
        }
        let (mut si, mut ki) = (0, 0);
        for f in s {
            match f {
                Fld::S | Fld::X(_) => {
                    parts.push(names(self.slots[si]));
                    si += 1;
                }
                Fld::C(_) => {
                    let (bs, k) = &self.kids[ki];
                    for b in bs {
                        parts.push(names(*b));
                    }
                    parts.push(k.text(lang, names));
                    ki += 1;
                }
                Fld::P => parts.push(self.pay.clone().unwrap_or_default()),
            }
        }
        if parts.len() == 1 {
            parts.pop().unwrap()
        } else {
            format!("({})", parts.join(" "))
        }
    }

    /// maximal number of distinct names needed by any subterm: its free names (bodies counted open) plus its own binders.
    pub fn max_names(&self) -> usize {
        let mut v = vec![];
        self.subterms(&mut v);
        // a node with binders needs that many additional fresh names when it is opened
        v.iter().map(|x| x.fv().len() + x.kids.iter().map(|(b, _)| b.len()).sum::<usize>()).max().unwrap_or(0)
    }
}

/// 0: neutral names `$p<n>` / `$b<n>`; 1: names that look like the crate's own fresh slots, far above the thread's fresh counter
/// and far apart (`$f<2000000 + 100000 n>`, bound `$f<50000000 + 100000 k>`): legal user names that `Slot::fresh` has to stay clear of
pub static NAMING: std::sync::atomic::AtomicU8 = std::sync::atomic::AtomicU8::new(0);
const F_FREE: u32 = 2_000_000;
const F_BOUND: u32 = 50_000_000;
const F_STEP: u32 = 100_000;

/// names in [NUM_BASE, NUM_BASE + 1000) print as *numeric* slots ($100000 ...): numeric slots are ordered by value, not by the order in
/// which their names were first parsed, so binders named downwards from NUM_BASE + 400 sort against their order of appearance
pub const NUM_BASE: Name = 900_000;
pub fn pname(n: Name) -> String {
    if (NUM_BASE..NUM_BASE + 1000).contains(&n) {
        return format!("${}", 100_000 + (n - NUM_BASE));
    }
    let fresh_like = NAMING.load(std::sync::atomic::Ordering::Relaxed) == 1;
    if n >= BOUND {
        if fresh_like && n - BOUND < 2000 {
            format!("$f{}", F_BOUND + F_STEP * (n - BOUND))
        } else {
            format!("$b{}", n - BOUND)
        }
    } else if fresh_like && n < 400 {
        format!("$f{}", F_FREE + F_STEP * n)
    } else {
        format!("$p{}", n)
    }
}

// ---------------------------------------------------------------------------------------------
// independent s-expression reader (for text produced by the crate)

#[derive(Clone, Debug, PartialEq)]
pub enum Sx {
    Atom(String),
    Slot(String),
    List(Vec<Sx>),
}

pub fn read_sx(s: &str) -> Result<Sx, String> {
    let toks = lex(s)?;
    let mut pos = 0;
    let x = read_one(&toks, &mut pos)?;
    if pos != toks.len() {
        return Err(format!("trailing tokens at {pos}"));
    }
    Ok(x)
}

fn lex(s: &str) -> Result<Vec<String>, String> {
    let mut out = vec![];
    let mut cur = String::new();
    for c in s.chars() {
        if c == '(' || c == ')' {
            if !cur.is_empty() {
                out.push(std::mem::take(&mut cur));
            }
            out.push(c.to_string());
        } else if c.is_whitespace() {
            if !cur.is_empty() {
                out.push(std::mem::take(&mut cur));
            }
        } else {
            cur.push(c);
        }
    }
    if !cur.is_empty() {
        out.push(cur);
    }
    Ok(out)
}

fn read_one(t: &[String], pos: &mut usize) -> Result<Sx, String> {
    if *pos >= t.len() {
        return Err("eof".into());
    }
    let tok = &t[*pos];
    *pos += 1;
    if tok == "(" {
        let mut v = vec![];
        loop {
            if *pos >= t.len() {
                return Err("eof in list".into());
            }
            if t[*pos] == ")" {
                *pos += 1;
                break;
            }
            v.push(read_one(t, pos)?);
        }
        Ok(Sx::List(v))
    } else if tok == ")" {
        Err("unexpected )".into())
    } else if let Some(r) = tok.strip_prefix('$') {
        Ok(Sx::Slot(r.to_string()))
    } else {
        Ok(Sx::Atom(tok.clone()))
    }
}

/// Convert an s-expression into a Tm of the given language; slot strings are interned by `intern`.
pub fn sx_to_tm(lang: &LangSig, x: &Sx, intern: &mut dyn FnMut(&str) -> Name) -> Result<Tm, String> {
    match x {
        Sx::Slot(_) => Err("slot at term position".into()),
        Sx::Atom(a) => {
            if let Some(o) = lang.op(a) {
                if o.fields.is_empty() {
                    return Ok(Tm { op: o.name, slots: vec![], kids: vec![], pay: None });
                }
            }
            // bare payload variant
            for o in lang.ops {
                if o.name.starts_with('#') && payload_accepts(o.name, a) {
                    return Ok(Tm { op: o.name, slots: vec![], kids: vec![], pay: Some(a.clone()) });
                }
            }
            Err(format!("unknown atom {a}"))
        }
        Sx::List(v) => {
            let Some(Sx::Atom(op)) = v.get(0) else { return Err("list without op".into()) };
            let o = lang.op(op).ok_or_else(|| format!("unknown op {op}"))?;
            let mut i = 1;
            let mut slots = vec![];
            let mut kids = vec![];
            let mut pay = None;
            for f in o.fields {
                match f {
                    Fld::S | Fld::X(_) => {
                        let Some(Sx::Slot(s)) = v.get(i) else { return Err(format!("expected slot in {op}")) };
                        slots.push(intern(s));
                        i += 1;
                    }
                    Fld::C(k) => {
                        let mut bs = vec![];
                        for _ in 0..*k {
                            let Some(Sx::Slot(s)) = v.get(i) else { return Err(format!("expected binder in {op}")) };
                            bs.push(intern(s));
                            i += 1;
                        }
                        let Some(c) = v.get(i) else { return Err(format!("missing child in {op}")) };
                        kids.push((bs, sx_to_tm(lang, c, intern)?));
                        i += 1;
                    }
                    Fld::P => {
                        let Some(Sx::Atom(a)) = v.get(i) else { return Err(format!("expected payload in {op}")) };
                        pay = Some(a.clone());
                        i += 1;
                    }
                }
            }
            if i != v.len() {
                return Err(format!("surplus elements in {op}"));
            }
            Ok(Tm { op: o.name, slots, kids, pay })
        }
    }
}

fn payload_accepts(kind: &str, a: &str) -> bool {
    match kind {
        "#num" | "#u32" => a.parse::<u32>().is_ok(),
        "#i64" => a.parse::<i64>().is_ok(),
        "#bool" => a.parse::<bool>().is_ok(),
        "#char" => a.chars().count() == 1,
        "#sym" => true,
        _ => false,
    }
}

pub fn parse_tm(lang: &LangSig, s: &str, intern: &mut dyn FnMut(&str) -> Name) -> Result<Tm, String> {
    sx_to_tm(lang, &read_sx(s)?, intern)
}

/// A simple interner for slot names coming back from the crate.
#[derive(Default, Clone, Debug)]
pub struct Interner {
    pub map: BTreeMap<String, Name>,
    pub next: Name,
}
impl Interner {
    pub fn new(start: Name) -> Interner {
        Interner { map: BTreeMap::new(), next: start }
    }
    pub fn get(&mut self, s: &str) -> Name {
        if let Some(n) = self.map.get(s) {
            return *n;
        }
        // fresh-like pool names (NAMING = 1) map back to their pool index
        if let Some(r) = s.strip_prefix('f') {
            if let Ok(k) = r.parse::<u32>() {
                if k >= F_FREE && k < F_FREE + 400 * F_STEP && (k - F_FREE) % F_STEP == 0 {
                    let n = (k - F_FREE) / F_STEP;
                    self.map.insert(s.to_string(), n);
                    return n;
                }
            }
        }
        // pool names "p<k>" map to k
        if let Some(r) = s.strip_prefix('p') {
            if let Ok(k) = r.parse::<u32>() {
                if k < 1000 {
                    self.map.insert(s.to_string(), k);
                    return k;
                }
            }
        }
        let n = self.next;
        self.next += 1;
        self.map.insert(s.to_string(), n);
        n
    }
}
