//! C15 — saturation and stop reasons are reported truthfully.
use crate::core::*;
use crate::gen::*;
use crate::json::J;
use crate::langs::*;
use crate::props::model::{gen_arith, mk_rewrite, rule_pool, RuleSpec, M1};
use crate::rng::Rng;
use crate::sym::to_rec;
use crate::tm::*;
use slotted_egraphs::*;
use std::cell::Cell;
use std::rc::Rc;
use std::time::Duration;

fn sym_count<L: Language>(eg: &EGraph<L>, a: &AppliedId) -> usize {
    let a = eg.find_applied_id(a);
    let slots: Vec<Slot> = a.m.values_vec();
    let k = slots.len();
    if k > 4 {
        return 0;
    }
    let mut idx: Vec<usize> = (0..k).collect();
    let mut count = 0;
    loop {
        let m: SlotMap = (0..k).map(|i| (slots[i], slots[idx[i]])).collect();
        if eg.eq(&a, &a.apply_slotmap(&m)) {
            count += 1;
        }
        let mut i = k;
        while i > 1 && idx[i - 2] >= idx[i - 1] {
            i -= 1;
        }
        if i <= 1 {
            break;
        }
        let mut j = k - 1;
        while idx[j] <= idx[i - 2] {
            j -= 1;
        }
        idx.swap(i - 2, j);
        idx[i - 1..].reverse();
    }
    count
}

/// independent fingerprint of the observable state
#[derive(PartialEq, Eq, Debug, Clone)]
struct Fp {
    nodes: usize,
    ids: Vec<Id>,
    classes: Vec<(usize, usize)>,
    eqs: Vec<bool>,
    tracked: Vec<(usize, usize)>,
}

fn fp<L: Language>(eg: &EGraph<L>, tracked: &[AppliedId]) -> Fp {
    let ids = eg.ids();
    let classes = ids.iter().map(|i| (eg.slots(*i).len(), sym_count(eg, &eg.mk_identity_applied_id(*i)))).collect();
    let mut eqs = vec![];
    for a in tracked {
        for b in tracked {
            eqs.push(eg.eq(a, b));
        }
    }
    let tr = tracked.iter().map(|a| (eg.find_applied_id(a).slots().len(), sym_count(eg, a))).collect();
    Fp { nodes: eg.total_number_of_nodes(), ids, classes, eqs, tracked: tr }
}

fn fp_diff(a: &Fp, b: &Fp) -> String {
    if a.nodes != b.nodes {
        return format!("node count {} -> {}", a.nodes, b.nodes);
    }
    if a.ids != b.ids {
        return format!("live classes {:?} -> {:?}", a.ids, b.ids);
    }
    if a.classes != b.classes {
        return format!("(slots, symmetries) per class {:?} -> {:?}", a.classes, b.classes);
    }
    if a.eqs != b.eqs {
        return format!("equality partition of the tracked terms changed ({} -> {} equal pairs)", a.eqs.iter().filter(|x| **x).count(), b.eqs.iter().filter(|x| **x).count());
    }
    format!("tracked (slots, symmetries) {:?} -> {:?}", a.tracked, b.tracked)
}

fn inst_by_lookup<L: Language>(eg: &EGraph<L>, pat: &Pattern<L>, subst: &Subst) -> Option<AppliedId> {
    match pat {
        Pattern::PVar(v) => subst.get(v).cloned(),
        Pattern::ENode(n, ch) => {
            let mut n = n.clone();
            let kids: Option<Vec<AppliedId>> = ch.iter().map(|c| inst_by_lookup(eg, c, subst)).collect();
            for (r, k) in n.applied_id_occurrences_mut().into_iter().zip(kids?.into_iter()) {
                *r = k;
            }
            eg.lookup(&n)
        }
        Pattern::Subst(..) => None,
    }
}

struct World<L: Language> {
    eg: EGraph<L>,
    tracked: Vec<AppliedId>,
    rules: Vec<(String, String, String)>,
    /// rule names with a side condition (not re-checked after saturation)
    mk: Box<dyn Fn() -> Vec<Rewrite<L>>>,
    desc: Vec<String>,
    /// grow-then-collapse worlds: a node limit in this range is exceeded by the first iteration and undercut again by the second
    limit_hint: Option<(usize, usize)>,
    /// text of a term that no rule of this world matches (k-th hook call): a hook may add it to the e-graph it is handed
    hook_term: fn(usize) -> String,
    /// at least this many monitored `apply_rewrites` calls before the run
    min_pre_steps: usize,
}

fn hook_term_sym(k: usize) -> String {
    let mut t = "e".to_string();
    for _ in 0..=k {
        t = format!("(idx $p0 {t})");
    }
    t
}

fn hook_term_arith(k: usize) -> String {
    format!("{}", 100_000 + k)
}

fn world_sym(rng: &mut Rng) -> Option<World<LSym>> {
    let ns = rng.range(2, 3);
    let ops: Vec<&'static str> = vec!["f", "g", "h", "k", "var", "c", "d", "u", "w", "app", "pair", "lam", "sum", "let", "idx"];
    let cfg = GenCfg { lang: &LSYM, ops, ns, max_depth: 2, max_names: 4, shadow: false };
    let h = gen_history(rng, &cfg, 5, 3);
    let mut eg: EGraph<LSym> = EGraph::default();
    let mut tracked = vec![];
    let mut desc = h.text(&LSYM);
    let r = guard(|| {
        let mut ids = std::collections::BTreeMap::new();
        for op in &h.ops {
            match op {
                HOp::Add(i) => {
                    ids.insert(*i, eg.add_expr(to_rec::<LSym>(&LSYM, &h.terms[*i])));
                }
                HOp::Union(a, b) => {
                    for t in [a, b] {
                        if !ids.contains_key(t) {
                            let id = eg.add_expr(to_rec::<LSym>(&LSYM, &h.terms[*t]));
                            ids.insert(*t, id);
                        }
                    }
                    let (x, y) = (ids[a].clone(), ids[b].clone());
                    eg.union(&x, &y);
                }
            }
        }
        // a three-slot leaf with one known symmetry, so that a rule can add a second, independent one
        if rng.chance(1, 2) {
            let a = eg.add_expr(RecExpr::parse("(h $p0 $p1 $p2)").unwrap());
            let b = eg.add_expr(RecExpr::parse("(h $p1 $p0 $p2)").unwrap());
            eg.union(&a, &b);
            ids.insert(1000, a);
            ids.insert(1001, eg.add_expr(RecExpr::parse("(lam $p0 (lam $p1 (lam $p2 (h $p0 $p1 $p2))))").unwrap()));
        }
        ids.values().cloned().collect::<Vec<_>>()
    });
    match r {
        Ok(t) => tracked = t,
        Err(_) => return None,
    }
    let all: Vec<(&str, &str, &str)> = vec![
        ("app-comm", "(app ?a ?b)", "(app ?b ?a)"),
        ("pair-swap", "(pair ?a ?b)", "(pair ?b ?a)"),
        ("u-elim", "(u (u ?a))", "?a"),
        ("f-comm", "(f $x $y)", "(f $y $x)"),
        ("h-swap23", "(h $x $y $z)", "(h $x $z $y)"),
        ("h-rot", "(h $x $y $z)", "(h $y $z $x)"),
        ("k-drop", "(k $x $y)", "(g $x)"),
        ("beta", "(app (lam $x ?b) ?t)", "?b[(var $x) := ?t]"),
        ("let-elim", "(let $x ?b ?e)", "(app (lam $x ?b) ?e)"),
        ("w-intro", "(w ?a)", "(u (w ?a))"),
        ("c-d", "c", "d"),
        ("pair-fst", "(pair ?a ?a)", "(u ?a)"),
    ];
    let mut rules = vec![];
    for (n, l, r) in all {
        if rng.chance(1, 3) {
            rules.push((n.to_string(), l.to_string(), r.to_string()));
        }
    }
    if rules.is_empty() {
        rules.push(("h-swap23".into(), "(h $x $y $z)".into(), "(h $x $z $y)".into()));
    }
    let rc = rules.clone();
    desc.push(format!("rules {:?}", rules.iter().map(|r| format!("{}: {} => {}", r.0, r.1, r.2)).collect::<Vec<_>>()));
    Some(World { eg, tracked, rules, mk: Box::new(move || rc.iter().map(|(n, l, r)| Rewrite::new(n, l, r)).collect()), desc, limit_hint: None, hook_term: hook_term_sym, min_pre_steps: 0 })
}

fn world_arith(rng: &mut Rng) -> Option<World<LArith>> {
    let mut scope = vec!["p".to_string(), "q".to_string()];
    let mut fresh = 0;
    let d = rng.range(2, 4);
    let t = gen_arith(rng, d, &mut scope, &mut fresh, false);
    let mut eg: EGraph<LArith> = EGraph::default();
    let root = guard(|| eg.add_expr(RecExpr::parse(&t).unwrap())).ok()?;
    let pool = rule_pool(M1);
    let mut idx = rng.perm(pool.len());
    idx.truncate(rng.range(1, 6));
    let chosen: Vec<RuleSpec> = idx.into_iter().map(|i| pool[i].clone()).collect();
    let rules = chosen.iter().filter(|r| r.not_free.is_none()).map(|r| (r.name.to_string(), r.lhs.to_string(), r.rhs.to_string())).collect();
    let desc = vec![format!("add {t}"), format!("rules {:?}", chosen.iter().map(|r| format!("{}: {} => {}", r.name, r.lhs, r.rhs)).collect::<Vec<_>>())];
    // tracked: the root and the classes of its subterms (every live class at the start)
    let mut tracked = vec![root];
    for i in eg.ids() {
        tracked.push(eg.mk_identity_applied_id(i));
    }
    Some(World { eg, tracked, rules, mk: Box::new(move || chosen.iter().map(mk_rewrite::<()>).collect()), desc, limit_hint: None, hook_term: hook_term_arith, min_pre_steps: 0 })
}

/// n towers `(add 3 (mul 2 (add N_i 0)))` over distinct numbers; the first iteration of `(add ?x 0) => (mul ?x 1)` adds e-nodes,
/// the second one (`(mul ?x 1) => 7`) merges all the inner classes, so that the towers collapse by congruence and the node count
/// falls below where it started: a limit that the first iteration exceeds is undercut again if the loop does not stop in time
fn world_collapse(rng: &mut Rng) -> Option<World<LArith>> {
    let n = rng.range(3, 8);
    let mut eg: EGraph<LArith> = EGraph::default();
    let mut tracked = vec![];
    let mut desc = vec![];
    let levels = rng.range(1, 3);
    for i in 0..n {
        let mut t = format!("(add {} 0)", 10 + i);
        for l in 0..levels {
            t = if l % 2 == 0 { format!("(mul 2 {t})") } else { format!("(add 3 {t})") };
        }
        desc.push(format!("add {t}"));
        tracked.push(guard(|| eg.add_expr(RecExpr::parse(&t).unwrap())).ok()?);
    }
    let start = eg.total_number_of_nodes();
    let rules: Vec<(String, String, String)> = vec![("grow".into(), "(add ?x 0)".into(), "(mul ?x 1)".into()), ("collapse".into(), "(mul ?x 1)".into(), "7".into())];
    desc.push(format!("rules {:?} (start: {start} nodes)", rules.iter().map(|r| format!("{}: {} => {}", r.0, r.1, r.2)).collect::<Vec<_>>()));
    let rc = rules.clone();
    Some(World { eg, tracked, rules, mk: Box::new(move || rc.iter().map(|(n, l, r)| Rewrite::new(n, l, r)).collect()), desc, limit_hint: Some((start, start + n)), hook_term: hook_term_arith, min_pre_steps: 0 })
}

/// Cancelling rounds: one `apply_rewrites` call that adds e-nodes and classes for some matches and, for others, merges classes
/// whose parents were united by the user beforehand (so that e-nodes collapse by congruence inside a class). The numbers of fresh
/// and collapsing instances and of pre-united parent pairs vary, so the deltas of node count, class counts, slot and symmetry totals
/// cancel in many different combinations - a call that changed the equality relation must still report `true`.
fn world_cancel(rng: &mut Rng) -> Option<World<LSym>> {
    let mut eg: EGraph<LSym> = EGraph::default();
    let mut tracked = vec![];
    let mut desc = vec![];
    let mut add = |eg: &mut EGraph<LSym>, t: String, desc: &mut Vec<String>| -> Option<AppliedId> {
        desc.push(format!("add {t}"));
        guard(|| eg.add_expr(RecExpr::parse(&t).unwrap())).ok()
    };
    let fresh_args = ["c", "(g $p0)", "(f $p0 $p1)"];
    let coll_args = ["d", "e", "(k $p0 $p1)"];
    let ctxs: [fn(&str) -> String; 4] = [|x| format!("(app {x} c)"), |x| format!("(app c {x})"), |x| format!("(idx $p2 {x})"), |x| format!("(ite {x} c d)")];
    let a = rng.below(3);
    for x in fresh_args.iter().take(a) {
        tracked.push(add(&mut eg, format!("(u {x})"), &mut desc)?);
    }
    let b = rng.range(1, 2);
    for x in coll_args.iter().take(b) {
        tracked.push(add(&mut eg, format!("(u {x})"), &mut desc)?);
        let m = rng.below(4);
        let mut order = rng.perm(ctxs.len());
        order.truncate(m);
        for ci in order {
            let l = add(&mut eg, ctxs[ci](&format!("(u {x})")), &mut desc)?;
            let r = add(&mut eg, ctxs[ci](&format!("(w (pair {x} {x}))")), &mut desc)?;
            desc.push("union of the two last terms".into());
            guard(|| eg.union(&l, &r)).ok()?;
            tracked.push(l);
            tracked.push(r);
        }
        if m == 0 && rng.chance(1, 2) {
            tracked.push(add(&mut eg, format!("(w (pair {x} {x}))"), &mut desc)?);
        }
    }
    let mut rules: Vec<(String, String, String)> = vec![("u-unfold".into(), "(u ?x)".into(), "(w (pair ?x ?x))".into())];
    if rng.chance(1, 2) {
        // matches only a term created by the first rule in the same round
        rules.push(("late".into(), "(pair c c)".into(), "(pair d d)".into()));
    }
    desc.push(format!("rules {:?} ({} nodes)", rules.iter().map(|r| format!("{}: {} => {}", r.0, r.1, r.2)).collect::<Vec<_>>(), eg.total_number_of_nodes()));
    let rc = rules.clone();
    Some(World { eg, tracked, rules, mk: Box::new(move || rc.iter().map(|(n, l, r)| Rewrite::new(n, l, r)).collect()), desc, limit_hint: None, hook_term: hook_term_sym, min_pre_steps: rng.below(2) })
}

fn sentinel<L: Language + 'static>(counter: Rc<Cell<usize>>) -> Rewrite<L> {
    RewriteT { searcher: Box::new(move |_eg: &EGraph<L>| counter.set(counter.get() + 1)), applier: Box::new(|_t: (), _eg: &mut EGraph<L>| {}) }.into()
}

fn judge<L: Language + 'static>(mut w: World<L>, rng: &mut Rng, out: &mut CaseOut) {
    let cj = J::obj(vec![("setup", J::arr_s(&w.desc))]);
    if std::env::var("VERIF_TRACE").is_ok() {
        eprintln!("C15 setup: {:?}", w.desc);
    }
    macro_rules! bad {
        ($sig:expr, $($arg:tt)*) => {{
            out.fail(Fail::new("untruthful-report", $sig, format!($($arg)*), cj.clone()));
            return;
        }};
    }
    // ---- (1) apply_rewrites' return value, step by step
    let pre_steps = if w.limit_hint.is_some() { 0 } else { rng.below(3).max(w.min_pre_steps) };
    for _ in 0..pre_steps {
        if w.eg.total_number_of_nodes() > 80 {
            break;
        }
        let before = fp(&w.eg, &w.tracked);
        let rws = (w.mk)();
        let r = guard(|| apply_rewrites(&mut w.eg, &rws));
        let changed = match r {
            Ok(c) => c,
            Err(p) => {
                out.fail(Fail::panic("panic", &p, "apply_rewrites", cj.clone()));
                return;
            }
        };
        out.inc("apply_rewrites_calls");
        let after = fp(&w.eg, &w.tracked);
        if !changed {
            out.inc("apply_rewrites_returned_false");
            if before != after {
                bad!("false-but-changed", "apply_rewrites returned false, but the e-graph changed: {}", fp_diff(&before, &after));
            }
        }
    }
    if w.eg.total_number_of_nodes() > 120 {
        out.inc("skipped_too_large");
        return;
    }
    // ---- (2) a run with limits and hooks
    let counter = Rc::new(Cell::new(0usize));
    let mut iter_limit = rng.below(7);
    let mut node_limit = if rng.chance(1, 3) { rng.range(1, 60) } else { 400 };
    let mut fail_at = if rng.chance(1, 4) { Some(rng.below(4)) } else { None };
    let mut time_zero = rng.chance(1, 10);
    let mut use_runner = rng.chance(2, 3);
    if let Some((lo, hi)) = w.limit_hint {
        node_limit = rng.range(lo, hi);
        iter_limit = rng.range(2, 6);
        use_runner = true;
        time_zero = false;
        if rng.chance(3, 4) {
            fail_at = None;
        }
        out.inc("runs_grow_then_collapse");
    }
    let mut rws = (w.mk)();
    rws.push(sentinel::<L>(counter.clone()));
    let tracked = w.tracked.clone();
    // a hook may change the e-graph it is handed (here: it inserts a term that no rule matches, one more e-node per call)
    let hook_mutates = rng.chance(1, 3);
    let hook_term = w.hook_term;
    let setup = format!("iter_limit={iter_limit} node_limit={node_limit} hook_fails_at={fail_at:?} time_limit_zero={time_zero} runner={use_runner} hook_adds_a_term={hook_mutates}");
    if hook_mutates {
        out.inc("runs_with_mutating_hook");
    }
    let hook_calls = Rc::new(Cell::new(0usize));
    let hook_failed = Rc::new(Cell::new(false));
    // the Runner is built either way round (new / default) and may get a root through with_expr after the e-graph was handed over
    let via_default = rng.chance(1, 2);
    let with_root = use_runner && w.limit_hint.is_none() && rng.chance(1, 3);
    let root_text = hook_term(12);
    if with_root {
        out.inc("runs_with_root_expr");
    }
    let field_reason = Rc::new(std::cell::RefCell::new(String::new()));
    let fr = field_reason.clone();
    let res = guard(|| {
        if use_runner {
            let (hc, hf) = (hook_calls.clone(), hook_failed.clone());
            let base: Runner<L, (), (), String> = if via_default { Runner::default() } else { Runner::new(()) };
            let mut runner: Runner<L, (), (), String> = base
                .with_egraph(std::mem::replace(&mut w.eg, EGraph::default()))
                .with_iter_limit(iter_limit)
                .with_node_limit(node_limit)
                .with_time_limit(if time_zero { Duration::from_secs(0) } else { Duration::from_secs(3600) })
                .with_hook(move |r| {
                    let k = hc.get();
                    hc.set(k + 1);
                    if hook_mutates {
                        r.egraph.add_expr(RecExpr::parse(&hook_term(k)).unwrap());
                    }
                    if Some(k) == fail_at {
                        hf.set(true);
                        Err(format!("hook-failure-{k}"))
                    } else {
                        Ok(())
                    }
                });
            if with_root {
                runner = runner.with_expr(&RecExpr::parse(&root_text).unwrap());
            }
            let rep = runner.run(&rws);
            *fr.borrow_mut() = format!("{:?} roots={}", runner.stop_reason, runner.roots.len());
            (rep, runner.egraph)
        } else {
            let (hc, hf) = (hook_calls.clone(), hook_failed.clone());
            let mut eg = std::mem::replace(&mut w.eg, EGraph::default());
            let rws2 = std::mem::take(&mut rws);
            let rep = run_eqsat(&mut eg, rws2, iter_limit, if time_zero { 0 } else { 3600 }, move |eg| {
                let k = hc.get();
                hc.set(k + 1);
                if hook_mutates {
                    eg.add_expr(RecExpr::parse(&hook_term(k)).unwrap());
                }
                if Some(k) == fail_at {
                    hf.set(true);
                    Err(format!("hook-failure-{k}"))
                } else {
                    Ok(())
                }
            });
            (rep, eg)
        }
    });
    let (rep, eg) = match res {
        Ok(x) => x,
        Err(p) => {
            out.fail(Fail::panic("panic", &p, &format!("run with {setup}"), cj.clone()));
            return;
        }
    };
    w.eg = eg;
    let apps = counter.get();
    out.inc("runs");
    let what = format!("{setup}: stop reason {:?}, {} rule applications counted, report.iterations={}", rep.stop_reason, apps, rep.iterations);
    // the loop ends within the configured bound plus a fixed constant
    if apps > iter_limit + 2 {
        bad!("iteration-bound-exceeded", "{what}: more than iter_limit + 2 applications");
    }
    if rep.egraph_nodes != w.eg.total_number_of_nodes() {
        bad!("report-node-count", "{what}: report.egraph_nodes = {} but the e-graph has {} nodes", rep.egraph_nodes, w.eg.total_number_of_nodes());
    }
    if use_runner {
        // the reason is reported twice (Report and the runner's own field): both must say the same
        let expect = format!("Some({:?}) roots={}", rep.stop_reason, if with_root { 1 } else { 0 });
        if *field_reason.borrow() != expect {
            bad!("runner-field-disagrees-with-report", "{what}: the runner says {} after the run", field_reason.borrow());
        }
    }
    match &rep.stop_reason {
        StopReason::Saturated => {
            out.inc("stop_saturated");
            // applying every rule once more changes nothing
            let before = fp(&w.eg, &tracked);
            let rws2 = (w.mk)();
            let changed = match guard(|| apply_rewrites(&mut w.eg, &rws2)) {
                Ok(c) => c,
                Err(p) => {
                    out.fail(Fail::panic("panic", &p, "apply_rewrites after saturation", cj.clone()));
                    return;
                }
            };
            let after = fp(&w.eg, &tracked);
            if changed || before != after {
                bad!("saturated-but-not", "{what}: one more apply_rewrites returned {changed} and the fingerprint {}", if before != after { fp_diff(&before, &after) } else { "is unchanged".into() });
            }
            // both sides of every match are already equal (unconditional rules with syntactic right sides)
            for (n, l, r) in &w.rules {
                if r.contains('[') {
                    continue;
                }
                let (lp, rp) = (Pattern::<L>::parse(l).unwrap(), Pattern::<L>::parse(r).unwrap());
                for s in ematch_all(&w.eg, &lp).iter().take(100) {
                    out.inc("saturated_matches_checked");
                    let a = inst_by_lookup(&w.eg, &lp, s);
                    let b = inst_by_lookup(&w.eg, &rp, s);
                    match (a, b) {
                        (Some(a), Some(b)) if w.eg.eq(&a, &b) => {}
                        (a, b) => bad!("saturated-but-match-open", "{what}: rule {n} still has a match {s:?} whose sides are {a:?} and {b:?}"),
                    }
                }
            }
        }
        StopReason::IterationLimit => {
            out.inc("stop_iteration_limit");
            if apps < iter_limit + 1 {
                bad!("iteration-limit-not-reached", "{what}: IterationLimit reported after fewer than iter_limit + 1 applications");
            }
        }
        StopReason::NodeLimit => {
            out.inc("stop_node_limit");
            if w.eg.total_number_of_nodes() <= node_limit {
                bad!("node-limit-not-exceeded", "{what}: NodeLimit reported but the e-graph has {} <= {} nodes", w.eg.total_number_of_nodes(), node_limit);
            }
        }
        StopReason::TimeLimit => {
            out.inc("stop_time_limit");
            if !time_zero {
                bad!("time-limit-out-of-reach", "{what}: TimeLimit reported although the limit is one hour");
            }
        }
        StopReason::Other(e) => {
            out.inc("stop_other");
            if !hook_failed.get() || Some(format!("hook-failure-{}", fail_at.unwrap_or(999))) != Some(e.clone()) {
                bad!("other-without-hook-failure", "{what}: Other({e}) reported, hook failed: {}", hook_failed.get());
            }
        }
    }
    // a hook failure must not be swallowed
    if hook_failed.get() && !matches!(rep.stop_reason, StopReason::Other(_)) {
        bad!("hook-failure-ignored", "{what}: the hook returned an error but the stop reason is {:?}", rep.stop_reason);
    }
    out.nontrivial = Some(crate::rng::fnv(&format!("{:?}{setup}", w.desc)));
    out.sample = Some(J::obj(vec![("mode", J::s(if use_runner { "Runner" } else { "run_eqsat" })), ("setup", J::arr_s(&w.desc)), ("limits", J::s(setup)), ("stop_reason", J::s(format!("{:?}", rep.stop_reason))), ("applications", J::I(apps as i64))]));
}

pub fn run_case(rng: &mut Rng) -> CaseOut {
    let mut out = CaseOut::default();
    if rng.chance(1, 8) {
        match world_cancel(rng) {
            Some(w) => {
                out.inc("runs_cancelling_round");
                judge(w, rng, &mut out)
            }
            None => out.inconclusive = Some("setup panicked (reported by C02/C08)".into()),
        }
    } else if rng.chance(1, 8) {
        match world_collapse(rng) {
            Some(w) => judge(w, rng, &mut out),
            None => out.inconclusive = Some("setup panicked (reported by C02/C08)".into()),
        }
    } else if rng.chance(1, 2) {
        match world_sym(rng) {
            Some(w) => judge(w, rng, &mut out),
            None => out.inconclusive = Some("setup panicked (reported by C02/C08)".into()),
        }
    } else {
        match world_arith(rng) {
            Some(w) => judge(w, rng, &mut out),
            None => out.inconclusive = Some("setup panicked (reported by C02/C08)".into()),
        }
    }
    out
}

pub fn run(args: &Args, rep: &mut Rep) {
    drive(args, rep, |rng, _| run_case(rng));
}
