//! C17 — fresh slots are globally new; slot names are injective.
//! A recorder follows every slot the user could have obtained in this thread; each case is one interleaving.
use crate::core::*;
use crate::json::J;
use crate::langs::*;
use crate::rng::Rng;
use slotted_egraphs::*;
use std::collections::{BTreeMap, BTreeSet};

fn gen_name(r: &mut Rng, fresh_hint: u32) -> String {
    match r.below(15) {
        // names handed over through the API may contain blanks: "x " is a name of its own, not another spelling of "x"
        13 => ["x ", " x", "x\t", "a b", " ", "abc ", "\u{a0}x", "y\n", " f1", "f1 ", "7 ", " 7"][r.below(12)].to_string(),
        0 => ["x", "y", "abc", "f", "ff", "fx", "F1", "$", "a$b", "?q"][r.below(10)].to_string(),
        1 => format!("f{}", r.below(12)),                       // f<n> around small counters
        2 => format!("f{}", fresh_hint.saturating_sub(2) + r.below(6) as u32), // around the current fresh counter
        3 => format!("f{}", fresh_hint + 5 + r.below(1000) as u32), // above the counter
        4 => format!("f0{}", r.below(20)),                      // leading zero: an ordinary name
        5 => format!("{}", r.below(40)),                        // numeric
        6 => format!("0{}", r.below(40)),                       // non-canonical numeral
        7 => format!("+{}", r.below(40)),
        8 => format!("{}", (1u64 << 30) - 1 - r.below(3) as u64), // largest numeric names
        9 => format!("{}", (1u64 << 30) + r.below(5) as u64),   // beyond the numeric range: ordinary names
        10 => ["é", "λx", "名", "a-b", "a.b", "x'", "f-1", "f+1", "f1f", "-0", "00", "f00", "4294967295", "f4294967295", "f1073741822", "f1073741823"][r.below(16)].to_string(),
        11 => format!("n{}", r.below(30)),
        12 => format!("f{}", (1u64 << 30) - 3 + r.below(6) as u64),
        _ => {
            let len = r.range(1, 6);
            (0..len).map(|_| *r.pick(&['a', 'f', '0', '1', '9', '_', 'z', '+'])).collect()
        }
    }
}

struct Rec {
    /// every slot value the user obtained so far (by any means)
    seen: BTreeSet<Slot>,
    /// name -> slot as first observed
    name2slot: BTreeMap<String, Slot>,
    slot2name: BTreeMap<Slot, String>,
    fresh_count: u32,
    log: Vec<String>,
}

impl Rec {
    fn note(&mut self, name: &str, s: Slot) -> Result<(), (String, String)> {
        if let Some(o) = self.name2slot.get(name) {
            if *o != s {
                return Err(("name-two-slots".into(), format!("name `{name}` denoted {o:?} earlier and {s:?} now")));
            }
        }
        if let Some(n) = self.slot2name.get(&s) {
            if n != name {
                return Err(("two-names-one-slot".into(), format!("names `{n}` and `{name}` denote the same slot {s:?}")));
            }
        }
        self.name2slot.insert(name.to_string(), s);
        self.slot2name.insert(s, name.to_string());
        self.seen.insert(s);
        Ok(())
    }
    fn check_print_parse(&mut self, s: Slot) -> Result<(), (String, String)> {
        let txt = s.to_string();
        let Some(name) = txt.strip_prefix('$') else { return Err(("print-no-dollar".into(), format!("{txt}"))) };
        let back = Slot::named(name);
        if back != s {
            return Err(("print-parse-roundtrip".into(), format!("slot prints as `{txt}` but Slot::named(\"{name}\") is a different slot ({back:?})")));
        }
        self.note(name, s)
    }
}

fn internal_slots(eg: &EGraph<LSym>) -> BTreeSet<Slot> {
    let mut out = BTreeSet::new();
    for i in eg.ids() {
        out.extend(eg.slots(i).iter().copied());
        for n in eg.enodes(i) {
            out.extend(n.all_slot_occurrences());
        }
    }
    out
}

pub fn run_case(rng: &mut Rng, len: usize) -> CaseOut {
    let mut out = CaseOut::default();
    let mut rec = Rec { seen: BTreeSet::new(), name2slot: BTreeMap::new(), slot2name: BTreeMap::new(), fresh_count: 0, log: vec![] };
    let mut eg: EGraph<LSym> = EGraph::default();
    let mut handles: Vec<AppliedId> = vec![];
    let mut internal_before = BTreeSet::new();
    let mut est_counter = 1u32; // the harness's estimate of the fresh counter, only used to aim names
    let mut kinds = BTreeSet::new();
    for step in 0..len {
        let ev = rng.below(10);
        let r = guard(|| -> Result<(), (String, String)> {
            match ev {
                0 | 1 => {
                    let s = Slot::fresh();
                    rec.log.push(format!("fresh -> {s:?}"));
                    rec.fresh_count += 1;
                    if rec.seen.contains(&s) {
                        return Err(("fresh-not-new".into(), format!("Slot::fresh() returned {s:?}, which the user already holds")));
                    }
                    let txt = s.to_string();
                    let name = &txt[1..];
                    if rec.name2slot.contains_key(name) {
                        return Err(("fresh-prints-as-known-name".into(), format!("Slot::fresh() prints as `{txt}`, a name that was used before")));
                    }
                    if name.parse::<u32>().is_ok() {
                        return Err(("fresh-prints-numeric".into(), format!("Slot::fresh() prints as numeric `{txt}`")));
                    }
                    if let Some(k) = name.strip_prefix('f').and_then(|x| x.parse::<u32>().ok()) {
                        est_counter = est_counter.max(k + 1);
                    }
                    rec.check_print_parse(s)?;
                    kinds.insert("fresh");
                }
                2 => {
                    let u = match rng.below(4) {
                        0 => rng.below(20) as u32,
                        1 => (1 << 30) - 1 - rng.below(4) as u32,
                        _ => rng.below(1 << 20) as u32,
                    };
                    let s = Slot::numeric(u);
                    rec.log.push(format!("numeric {u} -> {s:?}"));
                    if s.to_string() != format!("${u}") {
                        return Err(("numeric-print".into(), format!("Slot::numeric({u}) prints as {s:?}")));
                    }
                    rec.check_print_parse(s)?;
                    kinds.insert("numeric");
                }
                3 | 4 | 5 => {
                    let name = gen_name(rng, est_counter);
                    let s = Slot::named(&name);
                    rec.log.push(format!("named {name:?} -> {s:?}"));
                    if s.to_string() != format!("${name}") {
                        return Err(("named-print".into(), format!("Slot::named({name:?}) prints as `{}`: the name is not recovered (another name denotes this slot)", s.to_string())));
                    }
                    if let Some(k) = name.strip_prefix('f').and_then(|x| x.parse::<u32>().ok()) {
                        if k < (1 << 30) {
                            est_counter = est_counter.max(k + 1);
                        }
                    }
                    rec.note(&name, s)?;
                    rec.check_print_parse(s)?;
                    kinds.insert("named");
                }
                6 => {
                    // through the parser
                    let (a, b) = (gen_name(rng, est_counter), gen_name(rng, est_counter));
                    let valid = |n: &str| !n.is_empty() && !n.chars().any(|c| c.is_whitespace() || "()[]".contains(c));
                    if valid(&a) && valid(&b) {
                        let txt = format!("(f ${a} ${b})");
                        rec.log.push(format!("parse {txt}"));
                        let re = RecExpr::<LSym>::parse(&txt).map_err(|e| ("parse-error".to_string(), format!("{txt}: {e:?}")))?;
                        let LSym::F2(x, y) = re.node else { return Err(("parse-shape".into(), txt)) };
                        if re.to_string() != txt {
                            return Err(("parse-print".into(), format!("{txt} prints back as {}", re.to_string())));
                        }
                        rec.note(&a, x)?;
                        rec.note(&b, y)?;
                        for k in [&a, &b] {
                            if let Some(k) = k.strip_prefix('f').and_then(|x| x.parse::<u32>().ok()) {
                                if k < (1 << 30) {
                                    est_counter = est_counter.max(k + 1);
                                }
                            }
                        }
                        kinds.insert("parse");
                    }
                }
                _ => {
                    // e-graph work draws fresh slots internally
                    let user_before = rec.seen.clone();
                    let names: Vec<String> = rec.name2slot.keys().filter(|n| !n.chars().any(|c| c.is_whitespace() || "()[]".contains(c))).cloned().collect();
                    let pick = |rng: &mut Rng| -> String { if names.is_empty() { "q".into() } else { names[rng.below(names.len())].clone() } };
                    let (a, b, c) = (pick(rng), pick(rng), pick(rng));
                    let txt = match rng.below(5) {
                        0 => format!("(f ${a} ${b})"),
                        1 => format!("(lam ${a} (h ${a} ${b} ${c}))"),
                        2 => format!("(app (g ${a}) (k ${b} ${c}))"),
                        3 => format!("(sum (var ${a}) ${b} (f ${b} ${c}))"),
                        _ => format!("(u (q ${a} ${b} ${c} ${a}))"),
                    };
                    rec.log.push(format!("egraph add {txt}"));
                    let id = eg.add_expr(RecExpr::parse(&txt).map_err(|e| ("parse-error".to_string(), format!("{txt}: {e:?}")))?);
                    handles.push(id);
                    if handles.len() >= 2 && rng.chance(1, 2) {
                        let (i, j) = (rng.below(handles.len()), rng.below(handles.len()));
                        rec.log.push(format!("egraph union #{i} #{j}"));
                        let (x, y) = (handles[i].clone(), handles[j].clone());
                        eg.union(&x, &y);
                    }
                    let now = internal_slots(&eg);
                    for s in now.difference(&internal_before) {
                        // numeric slots inside stored e-nodes are the canonical shape names of bound slots ($0, $1, ...), not
                        // invented names; whether they can capture a user's numeric slot is judged behaviourally (hygiene lane)
                        let is_numeric = s.to_string()[1..].parse::<u32>().is_ok();
                        if user_before.contains(s) && !is_numeric {
                            return Err(("internal-slot-captures-user-slot".into(), format!("after `{txt}` the e-graph uses the new internal slot {s:?}, which the user already held")));
                        }
                        if let Some(k) = s.to_string().strip_prefix("$f").and_then(|x| x.parse::<u32>().ok()) {
                            est_counter = est_counter.max(k + 1);
                        }
                    }
                    // (internal slots become visible to the user through dump()/enodes(): treat them as seen from now on)
                    internal_before = now.clone();
                    rec.seen.extend(now);
                    kinds.insert("egraph");
                }
            }
            Ok(())
        });
        let cj = || J::obj(vec![("log", J::arr_s(&rec.log))]);
        match r {
            Ok(Ok(())) => out.inc("events"),
            Ok(Err((sig, d))) => {
                out.fail(Fail::new("slot-naming", sig, format!("step {step}: {d}"), cj()));
                return out;
            }
            Err(p) => {
                out.fail(Fail::panic("panic", &p, &format!("step {step}: {}", rec.log.last().cloned().unwrap_or_default()), cj()));
                return out;
            }
        }
    }
    out.add("fresh_calls", rec.fresh_count as u64);
    out.add("names_recorded", rec.name2slot.len() as u64);
    if kinds.len() >= 4 {
        let mut h = 0;
        for l in &rec.log {
            h = Rng::mix(h, crate::rng::fnv(l));
        }
        out.nontrivial = Some(h);
    }
    out.sample = Some(J::obj(vec![("mode", J::s("interleaving")), ("first_events", J::arr_s(&rec.log[..rec.log.len().min(10)].to_vec()))]));
    out
}

pub fn run(args: &Args, rep: &mut Rep) {
    let len = args.param_u("len", 200) as usize;
    drive(args, rep, move |rng, _| run_case(rng, len));
}
