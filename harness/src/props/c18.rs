//! C18 — printing and parsing round-trip; parsing never panics.
use crate::core::*;
use crate::gen::*;
use crate::json::J;
use crate::langs::*;
use crate::rng::Rng;
use crate::tm::*;
use slotted_egraphs::*;

fn slot_name(r: &mut Rng) -> String {
    match r.below(8) {
        0 => format!("{}", r.below(12)),
        1 => format!("f{}", r.below(30)),
        2 => ["x", "y", "zz", "a1", "f", "f0x", "05", "+3", "é", "a:=b", "?v", "$"][r.below(12)].to_string(),
        _ => format!("s{}", r.below(5)),
    }
}

/// payload token for the k-th payload field of an operator
fn payload_for_field(op: &str, k: usize, r: &mut Rng) -> String {
    match (op, k) {
        ("proj", 0) => ["foo", "bar.x", "q", "n1x"][r.below(4)].to_string(),
        ("proj", _) | ("pidx", _) => format!("{}", [0u64, 4, 17, 4294967295][r.below(4)]),
        ("flag2", 0) => ["true", "false"][r.below(2)].to_string(),
        ("flag2", _) => format!("{}", r.below(9)),
        _ => payload_for(op, r),
    }
}

fn payload_for(op: &str, r: &mut Rng) -> String {
    match op {
        "cst" | "#num" => format!("{}", [0u64, 1, 7, 42, 4294967295][r.below(5)]),
        "neg" | "big" => ["-5", "0", "77", "-9223372036854775808", "9223372036854775807"][r.below(5)].to_string(),
        "flag" => ["true", "false"][r.below(2)].to_string(),
        "ch" => ["a", "Z", "é", "7", "+"][r.below(5)].to_string(),
        "tag" | "#sym" => ["abc", "x-1", "foo.bar", "q", "λ", "a==b", "tru", "-x"][r.below(8)].to_string(),
        _ => "0".into(),
    }
}

/// random term text of a language, written with the harness's own printer conventions
fn gen_text(lang: &'static LangSig, r: &mut Rng, depth: usize, pattern: bool, vars: &mut Vec<String>) -> String {
    if pattern && r.chance(1, 5) {
        let v = if !vars.is_empty() && r.chance(1, 2) { r.pick(vars).clone() } else { ["a", "b", "x1", "body", "?", "a?b"][r.below(6)].to_string() };
        vars.push(v.clone());
        return format!("?{v}");
    }
    let leaf = depth == 0 || r.chance(1, 3);
    let cands: Vec<&OpSig> = lang.ops.iter().filter(|o| o.fields.iter().any(|f| matches!(f, Fld::C(_))) != leaf).collect();
    let cands: Vec<&OpSig> = if cands.is_empty() { lang.ops.iter().collect() } else { cands };
    let o = *r.pick(&cands);
    let mut parts = vec![];
    if !o.name.starts_with('#') {
        parts.push(o.name.to_string());
    }
    let mut pk = 0;
    for f in o.fields {
        match f {
            Fld::S => parts.push(format!("${}", slot_name(r))),
            Fld::X(k) => {
                for _ in 0..*k {
                    parts.push(format!("${}", slot_name(r)));
                }
                parts.push(format!("${}", slot_name(r)));
            }
            Fld::C(k) => {
                for _ in 0..*k {
                    parts.push(format!("${}", slot_name(r)));
                }
                parts.push(gen_text(lang, r, depth.saturating_sub(1), pattern, vars));
            }
            Fld::P => {
                parts.push(payload_for_field(o.name, pk, r));
                pk += 1;
            }
        }
    }
    let base = if parts.len() == 1 { parts.pop().unwrap() } else { format!("({})", parts.join(" ")) };
    if pattern && depth > 0 && r.chance(1, 6) {
        // substitution form b[x := t], possibly nested and possibly chained: b[x1 := t1][x2 := t2]
        let mut out = base;
        for _ in 0..(1 + if r.chance(1, 3) { 1 + r.below(2) } else { 0 }) {
            let x = gen_text(lang, r, 1, pattern, vars);
            let t = gen_text(lang, r, 1, pattern, vars);
            out = format!("{out}[{x} := {t}]");
        }
        return out;
    }
    base
}

fn rseed_below(t: &str, n: usize, salt: usize) -> usize {
    (crate::rng::fnv(&format!("{t}#{salt}")) % (n as u64)) as usize
}

fn re_wf<L: Language>(re: &RecExpr<L>) -> bool {
    re.node.applied_id_occurrences().len() == re.children.len() && re.children.iter().all(re_wf)
}
fn pat_wf<L: Language>(p: &Pattern<L>) -> bool {
    match p {
        Pattern::ENode(n, ch) => n.applied_id_occurrences().len() == ch.len() && ch.iter().all(pat_wf),
        Pattern::PVar(_) => true,
        Pattern::Subst(a, b, c) => pat_wf(a) && pat_wf(b) && pat_wf(c),
    }
}

fn mutate(r: &mut Rng, texts: &[String]) -> String {
    let t = r.pick(texts).clone();
    let chars: Vec<char> = t.chars().collect();
    match r.below(9) {
        0 => chars[..r.below(chars.len() + 1)].iter().collect(),
        1 => chars[r.below(chars.len() + 1)..].iter().collect(),
        2 => {
            // delete / duplicate / swap a whitespace-separated token
            let mut toks: Vec<&str> = t.split(' ').collect();
            if toks.is_empty() {
                return t;
            }
            let i = r.below(toks.len());
            match r.below(3) {
                0 => {
                    toks.remove(i);
                }
                1 => toks.insert(i, toks[i]),
                _ => {
                    let j = r.below(toks.len());
                    toks.swap(i, j);
                }
            }
            toks.join(" ")
        }
        3 => {
            // flip / insert / remove a bracket character
            let mut c = chars.clone();
            let b = *r.pick(&['(', ')', '[', ']', '?', '$', ':', '=', ',', ' ']);
            if c.is_empty() || r.chance(1, 2) {
                c.insert(r.below(c.len() + 1), b);
            } else {
                let i = r.below(c.len());
                if r.chance(1, 2) {
                    c[i] = b;
                } else {
                    c.remove(i);
                }
            }
            c.into_iter().collect()
        }
        4 => {
            let u = r.pick(texts).clone();
            let uc: Vec<char> = u.chars().collect();
            let a: String = chars[..r.below(chars.len() + 1)].iter().collect();
            let b: String = uc[r.below(uc.len() + 1)..].iter().collect();
            a + &b
        }
        5 => {
            let n = r.below(12);
            (0..n).map(|_| *r.pick(&['(', ')', '[', ']', '?', '$', ':', '=', ' ', 'a', 'f', '0', '9', ',', '\t', '\n', 'é', '\u{0}', '-', '+'])).collect()
        }
        6 => format!("{t}[{}", r.pick(texts)),
        7 => format!("{t} := {}]", r.pick(texts)),
        _ => format!("{} == {}, {}", r.pick(texts), t, r.pick(texts)),
    }
}

fn lang_case<L: Language + 'static>(lang: &'static LangSig, r: &mut Rng, out: &mut CaseOut, corpus: &mut Vec<String>) -> bool {
    let cj = |t: &str| J::obj(vec![("lang", J::s(lang.name)), ("text", J::s(t))]);
    // ---- terms
    for _ in 0..6 {
        let d = r.range(0, 3);
        let t0 = gen_text(lang, r, d, false, &mut vec![]);
        corpus.push(t0.clone());
        let res = guard(|| -> Result<(), (String, String)> {
            let x = RecExpr::<L>::parse(&t0).map_err(|e| ("valid-term-rejected".to_string(), format!("{t0}: {e:?}")))?;
            if !re_wf(&x) {
                return Err(("ill-formed-ok".into(), format!("{t0} parsed to an ill-formed term")));
            }
            let t1 = x.to_string();
            if t1 != t0 {
                return Err(("print-differs".into(), format!("{t0} prints as {t1}")));
            }
            let x2 = RecExpr::<L>::parse(&t1).map_err(|e| ("printed-term-rejected".to_string(), format!("{t1}: {e:?}")))?;
            if x2 != x {
                return Err(("term-roundtrip".into(), format!("parse(print(x)) != x for {t0}")));
            }
            // a term is also a pattern, and the two readings agree
            let p = Pattern::<L>::parse(&t0).map_err(|e| ("term-rejected-as-pattern".to_string(), format!("{t0}: {e:?}")))?;
            if pattern_to_re(&p) != x || re_to_pattern(&x) != p {
                return Err(("term-pattern-disagree".into(), format!("{t0}")));
            }
            if format!("{:?}", x) != t0 {
                return Err(("debug-print".into(), format!("Debug of {t0} is {:?}", x)));
            }
            // the same term over slots made through the API (numeric slots up to 2^30 - 1, fresh slots) instead of parsed names
            let mut olds: Vec<Slot> = vec![];
            fn collect<L: Language>(x: &RecExpr<L>, out: &mut Vec<Slot>) {
                for s in x.node.all_slot_occurrences() {
                    if !out.contains(&s) {
                        out.push(s);
                    }
                }
                for c in &x.children {
                    collect(c, out);
                }
            }
            collect(&x, &mut olds);
            if !olds.is_empty() {
                let mut cands: Vec<Slot> = [(1u32 << 29) - 1, 1 << 29, (1 << 29) + 1, (1 << 30) - 1, (1 << 30) - 2, 123456789, 99999, 1 << 20].iter().map(|k| Slot::numeric(*k)).collect();
                for _ in 0..4 {
                    cands.push(Slot::fresh());
                }
                // injective, the targets are not slots of the term itself
                cands.retain(|c| !olds.contains(c));
                if cands.len() >= olds.len() {
                    let mut idx: Vec<usize> = (0..cands.len()).collect();
                    for i in (1..idx.len()).rev() {
                        idx.swap(i, rseed_below(&t0, i + 1, i));
                    }
                    let m: std::collections::HashMap<Slot, Slot> = olds.iter().enumerate().map(|(i, o)| (*o, cands[idx[i]])).collect();
                    fn map_slots<L: Language>(x: &RecExpr<L>, m: &std::collections::HashMap<Slot, Slot>) -> RecExpr<L> {
                        let mut n = x.node.clone();
                        for s in n.all_slot_occurrences_mut() {
                            if let Some(t) = m.get(s) {
                                *s = *t;
                            }
                        }
                        RecExpr { node: n, children: x.children.iter().map(|c| map_slots(c, m)).collect() }
                    }
                    let y = map_slots(&x, &m);
                    let ty = y.to_string();
                    let y2 = RecExpr::<L>::parse(&ty).map_err(|e| ("printed-term-rejected".to_string(), format!("{ty} (built through the API): {e:?}")))?;
                    if y2 != y {
                        return Err(("term-roundtrip-api-slots".into(), format!("parse(print(y)) != y for y = {ty}, built from {t0} by renaming its slots to numeric / fresh slots made through the API")));
                    }
                }
            }
            Ok(())
        });
        out.inc("term_roundtrips");
        match res {
            Ok(Ok(())) => {}
            Ok(Err((sig, d))) => {
                out.fail(Fail::new("roundtrip", format!("{}/{sig}", lang.name), d, cj(&t0)));
                return false;
            }
            Err(p) => {
                out.fail(Fail::panic("panic-valid-text", &p, &format!("term {t0}"), cj(&t0)));
                return false;
            }
        }
    }
    // ---- patterns (with substitution forms)
    for _ in 0..6 {
        let d = r.range(0, 3);
        let t0 = gen_text(lang, r, d, true, &mut vec![]);
        corpus.push(t0.clone());
        let res = guard(|| -> Result<bool, (String, String)> {
            let p = Pattern::<L>::parse(&t0).map_err(|e| ("valid-pattern-rejected".to_string(), format!("{t0}: {e:?}")))?;
            if !pat_wf(&p) {
                return Err(("ill-formed-ok".into(), format!("{t0} parsed to an ill-formed pattern")));
            }
            let t1 = p.to_string();
            if t1 != t0 {
                return Err(("print-differs".into(), format!("{t0} prints as {t1}")));
            }
            let p2 = Pattern::<L>::parse(&t1).map_err(|e| ("printed-pattern-rejected".to_string(), format!("{t1}: {e:?}")))?;
            if p2 != p {
                return Err(("pattern-roundtrip".into(), format!("parse(print(p)) != p for {t0}")));
            }
            Ok(t0.contains('['))
        });
        out.inc("pattern_roundtrips");
        match res {
            Ok(Ok(b)) => {
                if b {
                    out.inc("subst_patterns");
                }
            }
            Ok(Err((sig, d))) => {
                out.fail(Fail::new("roundtrip", format!("{}/{sig}", lang.name), d, cj(&t0)));
                return false;
            }
            Err(p) => {
                out.fail(Fail::panic("panic-valid-text", &p, &format!("pattern {t0}"), cj(&t0)));
                return false;
            }
        }
    }
    // ---- multi-patterns: "?v == (op ?c1 ?c2 ..)" with slots and payloads, depth exactly one
    for _ in 0..3 {
        let k = r.range(1, 3);
        let mut eqs = vec![];
        for _ in 0..k {
            let inner: Vec<&OpSig> = lang.ops.iter().collect();
            let o = *r.pick(&inner);
            let mut parts = vec![];
            if !o.name.starts_with('#') {
                parts.push(o.name.to_string());
            }
            for f in o.fields {
                match f {
                    Fld::S => parts.push(format!("${}", slot_name(r))),
                    Fld::X(k) => {
                        for _ in 0..=*k {
                            parts.push(format!("${}", slot_name(r)));
                        }
                    }
                    Fld::C(k) => {
                        for _ in 0..*k {
                            parts.push(format!("${}", slot_name(r)));
                        }
                        parts.push(format!("?{}", ["a", "b", "c", "v1"][r.below(4)]));
                    }
                    Fld::P => {
                        // inside a multi-pattern "==" and "," are separators: such payloads do not print unambiguously there
                        let k = parts.iter().filter(|x| !x.starts_with('$') && !x.starts_with('?')).count().saturating_sub(1);
                        let mut p = payload_for_field(o.name, k, r);
                        while p.contains("==") || p.contains(',') {
                            p = payload_for_field(o.name, k, r);
                        }
                        parts.push(p)
                    }
                }
            }
            let rhs = if parts.len() == 1 { parts.pop().unwrap() } else { format!("({})", parts.join(" ")) };
            eqs.push(format!("?{} == {}", ["a", "b", "c", "r"][r.below(4)], rhs));
        }
        let t0 = eqs.join(", ");
        corpus.push(t0.clone());
        let res = guard(|| -> Result<(), (String, String)> {
            let mp = MultiPattern::<L>::parse(&t0).map_err(|e| ("valid-multipattern-rejected".to_string(), format!("{t0}: {e:?}")))?;
            let t1 = mp.to_string();
            if t1 != t0 {
                return Err(("multipattern-print-differs".into(), format!("{t0} prints as {t1}")));
            }
            let mp2 = MultiPattern::<L>::parse(&t1).map_err(|e| ("printed-multipattern-rejected".to_string(), format!("{t1}: {e:?}")))?;
            if mp2.to_string() != t1 {
                return Err(("multipattern-roundtrip".into(), format!("print(parse(print(x))) != print(x) for {t0}")));
            }
            Ok(())
        });
        out.inc("multipattern_roundtrips");
        match res {
            Ok(Ok(())) => {}
            Ok(Err((sig, d))) => {
                out.fail(Fail::new("roundtrip", format!("{}/{sig}", lang.name), d, cj(&t0)));
                return false;
            }
            Err(p) => {
                out.fail(Fail::panic("panic-valid-text", &p, &format!("multi-pattern {t0}"), cj(&t0)));
                return false;
            }
        }
    }
    // ---- arbitrary text: never panics; Ok values are well formed
    for _ in 0..60 {
        let t = mutate(r, corpus);
        out.inc("arbitrary_texts");
        let res = guard(|| -> Result<(u64, u64), (String, String)> {
            let mut oks = 0;
            let mut errs = 0;
            match RecExpr::<L>::parse(&t) {
                Ok(x) => {
                    oks += 1;
                    if !re_wf(&x) {
                        return Err(("ill-formed-ok".into(), format!("RecExpr::parse({t:?}) returned a node with a wrong number of children")));
                    }
                    // whatever was accepted must survive its own print/parse
                    let t1 = x.to_string();
                    match RecExpr::<L>::parse(&t1) {
                        Ok(x2) if x2 == x => {}
                        _ => return Err(("accepted-text-not-stable".into(), format!("{t:?} was accepted, prints as {t1:?}, which does not parse back to the same term"))),
                    }
                }
                Err(_) => errs += 1,
            }
            match Pattern::<L>::parse(&t) {
                Ok(p) => {
                    oks += 1;
                    if !pat_wf(&p) {
                        return Err(("ill-formed-ok".into(), format!("Pattern::parse({t:?}) returned a node with a wrong number of children")));
                    }
                }
                Err(_) => errs += 1,
            }
            match MultiPattern::<L>::parse(&t) {
                Ok(_) => oks += 1,
                Err(_) => errs += 1,
            }
            Ok((oks, errs))
        });
        match res {
            Ok(Ok((o, e))) => {
                out.add("arbitrary_accepted", o);
                out.add("arbitrary_rejected", e);
            }
            Ok(Err((sig, d))) => {
                out.fail(Fail::new("parse-result", format!("{}/{sig}", lang.name), d, cj(&t)));
                return false;
            }
            Err(p) => {
                out.fail(Fail::panic("panic-arbitrary-text", &p, &format!("text {t:?}"), cj(&t)));
                return false;
            }
        }
    }
    true
}

pub fn run_case(rng: &mut Rng) -> CaseOut {
    let mut out = CaseOut::default();
    let mut corpus: Vec<String> = vec!["".into(), "(".into(), "c[".into(), "?a".into(), "(app c c c)".into(), "?a == ?b".into(), "c == (app ?x ?y)".into()];
    let which = rng.below(4);
    let ok = match which {
        0 => lang_case::<LSym>(&LSYM, rng, &mut out, &mut corpus),
        1 => lang_case::<LArith>(&LARITH, rng, &mut out, &mut corpus),
        2 => lang_case::<LPay>(&LPAY, rng, &mut out, &mut corpus),
        _ => lang_case::<LNest>(&LNEST, rng, &mut out, &mut corpus),
    };
    if ok {
        let mut h = 0;
        for c in &corpus {
            h = Rng::mix(h, crate::rng::fnv(c));
        }
        out.nontrivial = Some(h);
    }
    out.sample = Some(J::obj(vec![("mode", J::s(["LSym", "LArith", "LPay", "LNest"][which])), ("texts", J::arr_s(&corpus[7..corpus.len().min(12)].to_vec()))]));
    let _ = gen_closed_term;
    out
}

pub fn run(args: &Args, rep: &mut Rep) {
    drive(args, rep, |rng, _| run_case(rng));
}
