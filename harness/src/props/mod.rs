use crate::core::*;

pub mod c19;

pub fn dispatch(args: &Args, rep: &mut Rep) -> bool {
    match args.prop.as_str() {
        "C19" => c19::run(args, rep),
        _ => return false,
    }
    true
}
