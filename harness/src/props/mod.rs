use crate::core::*;

pub mod c06;
pub mod c07;
pub mod c08;
pub mod c09;
pub mod c10;
pub mod c14;
pub mod c14s;
pub mod c15;
pub mod c16;
pub mod c17;
pub mod c18;
pub mod c19;
pub mod c20;
pub mod matchp;
pub mod meta;
pub mod model;
pub mod cong;
pub mod script;
pub mod wide;

pub fn dispatch(args: &Args, rep: &mut Rep) -> bool {
    match args.prop.as_str() {
        "C03" => model::run(args, rep),
        "C04" | "C05" => matchp::run(args, rep),
        "C06" => c06::run(args, rep),
        "C07" => c07::run(args, rep),
        "C08" => c08::run(args, rep),
        "C09" => c09::run(args, rep),
        "C10" => c10::run(args, rep),
        "C10red" => cong::run(args, rep, cong::Focus::Both),
        "C02wide" | "C09wide" => wide::run(args, rep),
        "C11" | "C12" | "C13" => meta::run(args, rep),
        "C14" => c14::run(args, rep),
        "C14sym" => c14s::run(args, rep),
        "C15" => c15::run(args, rep),
        "C16" => c16::run(args, rep),
        "C17" => c17::run(args, rep),
        "C18" => c18::run(args, rep),
        "C20" => c20::run(args, rep),
        "C19" => c19::run(args, rep),
        "C01" => cong::run(args, rep, cong::Focus::Sound),
        "C02" => cong::run(args, rep, cong::Focus::Complete),
        _ => return false,
    }
    true
}
