//! C20 — runs are reproducible: the same operations give the same transcript, in fresh threads running concurrently with
//! unrelated e-graph work (noise threads interning unrelated symbols) and in separate processes.
use crate::core::*;
use crate::gen::*;
use crate::json::J;
use crate::langs::*;
use crate::rng::Rng;
use crate::tm::*;
use slotted_egraphs::*;
use std::sync::{Arc, Barrier, Mutex};

#[derive(Clone, Debug)]
pub enum COp {
    Add(String),
    Union(usize, usize),
    Rewrite(Vec<(String, String, String)>),
    Match(String),
    Extract(usize),
    Dump,
    Explain(usize, usize),
}

#[derive(Clone, Debug)]
pub struct CHist {
    pub ops: Vec<COp>,
    /// "pay" (payload language, nodes bind at most one slot), "sym" (multi-slot leaves, nodes binding two slots) or
    /// "arith" (arithmetic with a constant-folding analysis whose modify hook inserts the constant and unions)
    pub lang: &'static str,
}

/// the committed witness of known finding KF-C20-1 (independent of the generators)
pub fn directed_kf1() -> CHist {
    CHist {
        ops: vec![
            COp::Add("k".into()),
            COp::Add("alpha".into()),
            COp::Union(1, 0),
            COp::Add("(lam $p501 (lam $p502 (idx $p2 (var $p502))))".into()),
            COp::Add("gamma".into()),
            COp::Add("(app beta omega)".into()),
            COp::Match("?a".into()),
            COp::Union(0, 2),
            COp::Union(3, 0),
            COp::Extract(0),
            COp::Dump,
        ],
        lang: "pay",
    }
}

thread_local! {
    pub static DIRECTED_KF1: std::cell::Cell<bool> = std::cell::Cell::new(false);
}

pub fn gen_chist(rng: &mut Rng, with_dump: bool) -> CHist {
    if DIRECTED_KF1.with(|d| d.get()) {
        return directed_kf1();
    }
    // a third of the histories run over the symbolic language (multi-slot leaves, nodes that bind two slots, no payloads)
    if rng.chance(1, 3) {
        return gen_chist_sym(rng, with_dump);
    }
    // a quarter of the rest: arithmetic with an analysis attached (make / merge / modify run inside every public call)
    if rng.chance(1, 4) {
        return gen_chist_arith(rng, with_dump);
    }
    // half of the histories are free of Symbol payloads (the known interner-order dependence cannot show in them)
    let with_symbols = rng.chance(1, 2);
    let mut ops_l = vec!["lam", "app", "var", "two", "cst", "neg", "flag", "idx", "nil", "#num"];
    if with_symbols {
        ops_l.push("#sym");
    }
    let cfg = GenCfg { lang: &LPAY, ops: ops_l, ns: 3, max_depth: 3, max_names: 4, shadow: rng.chance(1, 3) };
    let rules: Vec<(&str, &str, &str)> = vec![
        ("app-comm", "(app ?a ?b)", "(app ?b ?a)"),
        ("beta", "(app (lam $x ?b) ?t)", "?b[(var $x) := ?t]"),
        ("two-swap", "(two $x $y)", "(two $y $x)"),
        ("idx-drop", "(idx $x ?a)", "(app ?a (var $x))"),
        ("eta", "(lam $x (app ?f (var $x)))", "?f"),
        ("app-assoc", "(app ?a (app ?b ?c))", "(app (app ?a ?b) ?c)"),
        ("sym-intro", "(app ?a ?a)", "(app ?a beta)"),
        // rules with four and five variables under other names (substitution maps of other sizes and hash layouts)
        ("app-swap4", "(app (app ?x ?y) (app ?z ?w))", "(app (app ?z ?w) (app ?x ?y))"),
        ("app-rot5", "(app (app ?x ?y) (app ?z (app ?w ?v)))", "(app (app ?v ?x) (app ?y (app ?z ?w)))"),
        ("app-xy", "(app ?x ?y)", "(app ?y ?x)"),
    ];
    let rules: Vec<(&str, &str, &str)> = rules.into_iter().filter(|r| with_symbols || r.0 != "sym-intro").collect();
    let pats = ["(app ?a ?b)", "(lam $x ?b)", "(two $x $y)", "(app ?a ?a)", "(idx $x ?a)", "?a", "(app ?x ?y)", "(app (app ?x ?y) ?z)", "(app (app ?x ?y) (app ?z ?w))", "(app ?left ?right)"];
    let n = rng.range(6, 16);
    let mut ops = vec![];
    let mut nadd = 0;
    for _ in 0..n {
        let roll = rng.below(100);
        if roll < 40 || nadd < 2 {
            let t = gen_closed_term(rng, &cfg);
            ops.push(COp::Add(t.text(&LPAY, &pname)));
            nadd += 1;
        } else if roll < 60 {
            ops.push(COp::Union(rng.below(nadd), rng.below(nadd)));
        } else if roll < 72 {
            let k = rng.range(1, 3);
            let mut idx = rng.perm(rules.len());
            idx.truncate(k);
            ops.push(COp::Rewrite(idx.into_iter().map(|i| (rules[i].0.to_string(), rules[i].1.to_string(), rules[i].2.to_string())).collect()));
        } else if roll < 84 {
            ops.push(COp::Match(pats[rng.below(pats.len())].to_string()));
        } else if roll < 94 {
            ops.push(COp::Extract(rng.below(nadd)));
        } else if with_dump {
            ops.push(COp::Dump);
        } else {
            ops.push(COp::Explain(rng.below(nadd), rng.below(nadd)));
        }
    }
    explain_asserted(&mut ops);
    CHist { ops, lang: "pay" }
}

/// explanations builds: the first three asserted pairs are explained at the end (they are equal by assertion, so an explanation is
/// rendered whatever the history did in between); the explanation text is part of the transcript
fn explain_asserted(ops: &mut Vec<COp>) {
    if cfg!(feature = "explanations") {
        let pairs: Vec<(usize, usize)> = ops.iter().filter_map(|o| if let COp::Union(a, b) = o { Some((*a, *b)) } else { None }).take(3).collect();
        for (a, b) in pairs {
            ops.push(COp::Explain(a, b));
        }
    }
}

fn gen_chist_sym(rng: &mut Rng, with_dump: bool) -> CHist {
    let cfg = GenCfg { lang: &LSYM, ops: vec!["f", "g", "h", "k", "var", "c", "d", "u", "app", "pair", "lam", "sum", "let", "bb", "idx"], ns: 3, max_depth: 3, max_names: 4, shadow: rng.chance(1, 3) };
    let rules: Vec<(&str, &str, &str)> = vec![
        ("app-comm", "(app ?a ?b)", "(app ?b ?a)"),
        ("pair-swap", "(pair ?a ?b)", "(pair ?b ?a)"),
        ("f-comm", "(f $x $y)", "(f $y $x)"),
        ("h-rot", "(h $x $y $z)", "(h $y $z $x)"),
        ("beta", "(app (lam $x ?b) ?t)", "?b[(var $x) := ?t]"),
        ("let-elim", "(let $x ?b ?e)", "(app (lam $x ?b) ?e)"),
        ("bb-swap", "(bb $x $y ?a)", "(bb $y $x ?a)"),
        ("sum-intro", "(u ?a)", "(sum ?a $x (var $x))"),
        ("pair-swap4", "(pair (pair ?x ?y) (pair ?z ?w))", "(pair (pair ?z ?w) (pair ?x ?y))"),
        ("app-xy", "(app ?x ?y)", "(app ?y ?x)"),
    ];
    let pats = ["(app ?a ?b)", "(lam $x ?b)", "(f $x $y)", "(bb $x $y ?a)", "(sum ?a $x ?b)", "?a", "(h $x $y $x)", "(app ?x ?y)", "(pair ?x ?y)", "(app (app ?x ?y) (pair ?z ?w))", "(ite ?x ?y ?z)"];
    let n = rng.range(6, 16);
    let mut ops = vec![];
    let mut nadd = 0;
    for _ in 0..n {
        let roll = rng.below(100);
        if roll < 40 || nadd < 2 {
            let t = gen_closed_term(rng, &cfg);
            ops.push(COp::Add(t.text(&LSYM, &pname)));
            nadd += 1;
        } else if roll < 60 {
            ops.push(COp::Union(rng.below(nadd), rng.below(nadd)));
        } else if roll < 72 {
            let k = rng.range(1, 3);
            let mut idx = rng.perm(rules.len());
            idx.truncate(k);
            ops.push(COp::Rewrite(idx.into_iter().map(|i| (rules[i].0.to_string(), rules[i].1.to_string(), rules[i].2.to_string())).collect()));
        } else if roll < 84 {
            ops.push(COp::Match(pats[rng.below(pats.len())].to_string()));
        } else if roll < 94 {
            ops.push(COp::Extract(rng.below(nadd)));
        } else if with_dump {
            ops.push(COp::Dump);
        } else {
            ops.push(COp::Explain(rng.below(nadd), rng.below(nadd)));
        }
    }
    explain_asserted(&mut ops);
    CHist { ops, lang: "sym" }
}

/// Constant folding over F_7 for the "arith" histories: `modify` inserts the constant and unions it with the class (so the hook
/// itself adds, unions and rebuilds - analysis hooks run inside every public call of these histories).
#[derive(Default)]
pub struct CFold;
impl Analysis<LArith> for CFold {
    type Data = Option<u32>;
    fn make(eg: &EGraph<LArith, Self>, n: &LArith) -> Option<u32> {
        let d = |a: &AppliedId| *eg.analysis_data(a.id);
        match n {
            LArith::Num(k) => Some(k % 7),
            LArith::Var(_) => None,
            LArith::Add(a, b) => d(a).zip(d(b)).map(|(x, y)| (x + y) % 7),
            LArith::Mul(a, b) => d(a).zip(d(b)).map(|(x, y)| (x * y) % 7),
            LArith::Sum(b) => d(&b.elem).map(|x| (x * 3) % 7),
            LArith::Let(b, _) => d(&b.elem),
        }
    }
    fn merge(l: Option<u32>, r: Option<u32>) -> Option<u32> {
        match (l, r) {
            (Some(a), Some(b)) => Some(a.min(b)),
            (a, b) => a.or(b),
        }
    }
    fn modify(eg: &mut EGraph<LArith, Self>, i: Id) {
        if let Some(k) = *eg.analysis_data(i) {
            let a = eg.add(LArith::Num(k));
            let ident = eg.mk_identity_applied_id(eg.find_applied_id(&eg.mk_identity_applied_id(i)).id);
            eg.union(&a, &ident);
        }
    }
}

fn gen_chist_arith(rng: &mut Rng, with_dump: bool) -> CHist {
    let cfg = GenCfg { lang: &LARITH, ops: vec!["#num", "#num", "var", "add", "mul", "add", "mul", "sum", "let"], ns: 2, max_depth: 4, max_names: 3, shadow: rng.chance(1, 3) };
    let rules: Vec<(&str, &str, &str)> = vec![
        ("add-comm", "(add ?a ?b)", "(add ?b ?a)"),
        ("mul-comm", "(mul ?a ?b)", "(mul ?b ?a)"),
        ("add-assoc", "(add ?a (add ?b ?c))", "(add (add ?a ?b) ?c)"),
        ("distr", "(mul ?a (add ?b ?c))", "(add (mul ?a ?b) (mul ?a ?c))"),
        ("add-0", "(add ?a 0)", "?a"),
        ("mul-1", "(mul ?a 1)", "?a"),
        ("let-subst", "(let $x ?b ?e)", "?b[(var $x) := ?e]"),
        ("sum-add", "(sum $x (add ?a ?b))", "(add (sum $x ?a) (sum $x ?b))"),
    ];
    let pats = ["(add ?a ?b)", "(mul ?a ?b)", "(sum $x ?b)", "(let $x ?b ?e)", "?a", "(add ?a ?a)"];
    let n = rng.range(6, 16);
    let mut ops = vec![];
    let mut nadd = 0;
    for _ in 0..n {
        let roll = rng.below(100);
        if roll < 40 || nadd < 2 {
            let t = gen_closed_term(rng, &cfg);
            ops.push(COp::Add(t.text(&LARITH, &pname)));
            nadd += 1;
        } else if roll < 50 {
            // unions of arbitrary arithmetic terms would assert false equations between constants; a term is united with itself plus zero instead
            let i = rng.below(nadd);
            let t = if let COp::Add(t) = ops.iter().filter(|o| matches!(o, COp::Add(_))).nth(i).unwrap() { t.clone() } else { unreachable!() };
            ops.push(COp::Add(format!("(add {t} 0)")));
            nadd += 1;
            ops.push(COp::Union(i, nadd - 1));
        } else if roll < 70 {
            let k = rng.range(1, 3);
            let mut idx = rng.perm(rules.len());
            idx.truncate(k);
            ops.push(COp::Rewrite(idx.into_iter().map(|i| (rules[i].0.to_string(), rules[i].1.to_string(), rules[i].2.to_string())).collect()));
        } else if roll < 80 {
            ops.push(COp::Match(pats[rng.below(pats.len())].to_string()));
        } else if roll < 94 {
            ops.push(COp::Extract(rng.below(nadd)));
        } else if with_dump {
            ops.push(COp::Dump);
        } else {
            ops.push(COp::Explain(rng.below(nadd), rng.below(nadd)));
        }
    }
    explain_asserted(&mut ops);
    CHist { ops, lang: "arith" }
}

/// Replays the history and renders every observable result. `at_op` is called at every operation boundary.
pub fn transcript(h: &CHist, print_live: bool, at_op: &mut dyn FnMut(usize)) -> Result<Vec<String>, PanicInfo> {
    if h.lang == "sym" {
        transcript_l::<LSym, ()>(h, print_live, at_op)
    } else if h.lang == "arith" {
        transcript_l::<LArith, CFold>(h, print_live, at_op)
    } else {
        transcript_l::<LPay, ()>(h, print_live, at_op)
    }
}

fn transcript_l<LPay: Language + 'static, N: Analysis<LPay> + Default + 'static>(h: &CHist, print_live: bool, at_op: &mut dyn FnMut(usize)) -> Result<Vec<String>, PanicInfo>
where
    N::Data: std::fmt::Debug,
{
    let mut out: Vec<String> = vec![];
    let mut emit = |s: String, out: &mut Vec<String>| {
        if print_live {
            println!("T {s}");
        }
        out.push(s);
    };
    guard(|| {
        let mut eg: EGraph<LPay, N> = EGraph::default();
        let mut ids: Vec<AppliedId> = vec![];
        let mut texts: Vec<String> = vec![];
        for (k, op) in h.ops.iter().enumerate() {
            at_op(k);
            match op {
                COp::Add(t) => {
                    let id = eg.add_expr(RecExpr::parse(t).unwrap());
                    emit(format!("add {t} -> {id:?} slots={:?}", { let mut v: Vec<Slot> = eg.slots(id.id).iter().copied().collect(); v.sort(); v }), &mut out);
                    ids.push(id);
                    texts.push(t.clone());
                }
                COp::Union(a, b) => {
                    let (x, y) = (ids[*a].clone(), ids[*b].clone());
                    let r = eg.union(&x, &y);
                    emit(format!("union #{a} #{b} -> {r}; find {:?} {:?}", eg.find_applied_id(&x), eg.find_applied_id(&y)), &mut out);
                }
                COp::Rewrite(rs) => {
                    if eg.total_number_of_nodes() < 80 {
                        let rws: Vec<Rewrite<LPay, N>> = rs.iter().map(|(n, l, r)| Rewrite::new(n, l, r)).collect();
                        let r = apply_rewrites(&mut eg, &rws);
                        emit(format!("rewrite {:?} -> {r}", rs.iter().map(|x| x.0.clone()).collect::<Vec<_>>()), &mut out);
                    }
                }
                COp::Match(p) => {
                    let pat: Pattern<LPay> = Pattern::parse(p).unwrap();
                    let ms = ematch_all(&eg, &pat);
                    // the match list in returned order; each substitution rendered with sorted variables
                    let r: Vec<String> = ms.iter().map(|s| { let mut v: Vec<(&String, &AppliedId)> = s.iter().collect(); v.sort_by_key(|x| x.0.clone()); format!("{v:?}") }).collect();
                    emit(format!("ematch {p} -> {} matches {r:?}", ms.len()), &mut out);
                }
                COp::Extract(i) => {
                    let ex = Extractor::<LPay, AstSize>::new(&eg, AstSize);
                    let t = ex.extract(&ids[*i], &eg);
                    emit(format!("extract #{i} -> {t} cost {}", ex.get_best_cost::<()>(&eg.find_applied_id(&ids[*i]))), &mut out);
                }
                COp::Dump => {
                    if print_live {
                        println!("T dump-begin");
                        eg.dump();
                        println!("T dump-end");
                    }
                }
                COp::Explain(a, b) => {
                    #[cfg(feature = "explanations")]
                    {
                        if eg.eq(&ids[*a], &ids[*b]) {
                            let (ta, tb): (RecExpr<LPay>, RecExpr<LPay>) = (RecExpr::parse(&texts[*a]).unwrap(), RecExpr::parse(&texts[*b]).unwrap());
                            let p = eg.explain_equivalence(ta, tb);
                            // one transcript entry per explanation (the text has several lines; the process lane compares stdout line by line)
                            emit(format!("explain #{a} #{b} -> {}", p.to_string(&eg).trim_end().replace('\n', " ;; ")), &mut out);
                        }
                    }
                    let _ = (a, b);
                }
            }
            let p = eg.progress();
            emit(format!("  state: ids={:?} nodes={} progress=({}, {}, {}, {})", eg.ids(), eg.total_number_of_nodes(), p.number_of_classes, p.number_of_live_classes, p.sum_of_slots, p.sum_of_symmetries), &mut out);
        }
        // final per-class listing in id order; e-nodes of a class sorted (enodes() returns a set)
        for i in eg.ids() {
            let mut ns: Vec<String> = eg.enodes(i).iter().map(|n| format!("{n:?}")).collect();
            ns.sort();
            emit(format!("  class {i:?}: {ns:?} data={:?}", eg.analysis_data(i)), &mut out);
        }
    })?;
    Ok(out)
}

fn noise(seed: u64, stop: Arc<std::sync::atomic::AtomicBool>, sched: Arc<Mutex<Vec<(u8, u16)>>>, tid: u8) {
    let mut rng = Rng::new(seed);
    let mut k = 0u16;
    while !stop.load(std::sync::atomic::Ordering::Relaxed) {
        // unrelated e-graph work that interns unrelated symbols in the process-global interner
        let mut eg: EGraph<LPay> = EGraph::default();
        for j in 0..6 {
            let s = format!("noise_{}_{}_{}", tid, rng.below(1000), j);
            let a = eg.add_expr(RecExpr::parse(&format!("(app {s} (lam $x (app (var $x) n{})))", rng.below(50))).unwrap());
            let b = eg.add_expr(RecExpr::parse(&format!("(two $a{} $b{})", rng.below(9), rng.below(9))).unwrap());
            // a print/parse round trip of a term with invented binders: names of the form $f<n>, with n anywhere
            let bits = 4 + rng.below(16);
            let n = rng.below(1 << bits);
            let _ = eg.add_expr(RecExpr::parse(&format!("(lam $f{n} (app (var $f{n}) (var $f{})))", n + 1)).unwrap());
            if rng.chance(1, 3) {
                let _ = (a, b);
                let _ = Slot::fresh();
            }
        }
        // unrelated matching and rewriting with four- and five-variable patterns
        {
            let mut em: EGraph<LSym> = EGraph::default();
            let _ = em.add_expr(RecExpr::parse("(app (app (f $a $b) (g $a)) (app (k $b $c) (app c (var $c))))").unwrap());
            let _ = em.add_expr(RecExpr::parse("(pair (pair (g $a) d) (pair (var $a) (u e)))").unwrap());
            let pat: Pattern<LSym> = Pattern::parse(if rng.chance(1, 2) { "(app (app ?x ?y) (app ?z (app ?w ?v)))" } else { "(pair (pair ?x ?y) (pair ?z ?w))" }).unwrap();
            let _ = ematch_all(&em, &pat);
            let rw: Vec<Rewrite<LSym>> = vec![Rewrite::new("n4", "(app (app ?x ?y) (app ?z ?w))", "(app (app ?z ?w) (app ?x ?y))"), Rewrite::new("n5", "(pair (pair ?p ?q) (pair ?r ?s))", "(pair ?p (pair ?q (pair ?r ?s)))")];
            let _ = apply_rewrites(&mut em, &rw);
        }
        // unrelated e-graph work with an analysis attached: towers of constants, every level runs the modify hook (add + union + rebuild)
        {
            let mut ea: EGraph<LArith, CFold> = EGraph::default();
            let mut t = format!("{}", rng.below(7));
            for _ in 0..(if cfg!(miri) { 2 } else { rng.range(3, 9) }) {
                t = if rng.chance(1, 2) { format!("(add {} {t})", rng.below(7)) } else { format!("(mul {t} {})", rng.below(7)) };
            }
            let _ = ea.add_expr(RecExpr::parse(&t).unwrap());
        }
        sched.lock().unwrap().push((tid, k));
        k = k.wrapping_add(1);
        if rng.chance(1, 2) {
            std::thread::yield_now();
        }
    }
}

pub fn run_case(rng: &mut Rng, case_seed: u64, processes: usize, argv_extra: &[String]) -> CaseOut {
    let mut out = CaseOut::default();
    let with_dump = processes > 0;
    let h = gen_chist(rng, with_dump);
    let cj = J::obj(vec![("ops", J::A(h.ops.iter().map(|o| J::s(format!("{o:?}"))).collect()))]);
    // baseline: alone, in a fresh thread
    let h0 = h.clone();
    let base = std::thread::Builder::new().stack_size(64 << 20).spawn(move || transcript(&h0, false, &mut |_| {})).unwrap().join().unwrap();
    let base = match base {
        Ok(b) => b,
        Err(p) => {
            if std::env::var("VERIF_TRACE").is_ok() {
                eprintln!("C20 base panic: {} | ops {:?}", p.site(), h.ops);
            }
            // no other check runs this workload (payload language with rewriting, matching, extraction, explanation):
            // a panic here is reported, not hidden
            out.fail(Fail::panic("panic-in-history", &p, "the history panicked in its baseline run", cj.clone()));
            return out;
        }
    };
    out.add("explanations_rendered", base.iter().filter(|l| l.starts_with("explain #")).count() as u64);
    // ---- (a) K replay threads + noise threads, released together; yields injected at operation boundaries
    let k = 4;
    let nn = 4;
    let sched: Arc<Mutex<Vec<(u8, u16)>>> = Arc::new(Mutex::new(vec![]));
    let stop = Arc::new(std::sync::atomic::AtomicBool::new(false));
    let barrier = Arc::new(Barrier::new(k + nn));
    let mut noise_h = vec![];
    for t in 0..nn {
        let (st, sc, b) = (stop.clone(), sched.clone(), barrier.clone());
        let seed = rng.next();
        noise_h.push(std::thread::spawn(move || {
            b.wait();
            noise(seed, st, sc, 100 + t as u8)
        }));
    }
    let mut handles = vec![];
    for t in 0..k {
        let (hh, sc, b) = (h.clone(), sched.clone(), barrier.clone());
        let seed = rng.next();
        handles.push(std::thread::Builder::new().stack_size(64 << 20).spawn(move || {
            let mut r = Rng::new(seed);
            b.wait();
            transcript(&hh, false, &mut |op| {
                sc.lock().unwrap().push((t as u8, op as u16));
                for _ in 0..r.below(3) {
                    std::thread::yield_now();
                }
            })
        }).unwrap());
    }
    let results: Vec<Result<Vec<String>, PanicInfo>> = handles.into_iter().map(|h| h.join().unwrap()).collect();
    stop.store(true, std::sync::atomic::Ordering::Relaxed);
    for n in noise_h {
        let _ = n.join();
    }
    for (t, r) in results.iter().enumerate() {
        out.inc("thread_replays");
        match r {
            Err(p) => {
                out.fail(Fail::panic("replay-panicked", p, &format!("replay thread {t} panicked although the baseline run did not"), cj.clone()));
                return out;
            }
            Ok(tr) => {
                if *tr != base {
                    let i = tr.iter().zip(base.iter()).position(|(a, b)| a != b).unwrap_or(tr.len().min(base.len()));
                    out.fail(Fail::new("transcript-differs", "thread-replay", format!("replay thread {t} (concurrent with noise threads) differs from the baseline at line {i}: `{}` vs `{}`", tr.get(i).cloned().unwrap_or_default(), base.get(i).cloned().unwrap_or_default()), cj.clone()));
                    return out;
                }
            }
        }
    }
    // observed interleaving: hash of the order in which the threads passed their first operation boundaries
    let s = sched.lock().unwrap().clone();
    let replays_only: Vec<(u8, u16)> = s.iter().copied().filter(|x| x.0 < 100).collect();
    let noise_between = s.iter().filter(|x| x.0 >= 100).count();
    out.add("noise_iterations_during_replays", noise_between as u64);
    let prefix: Vec<(u8, u16)> = replays_only.iter().copied().take(12).collect();
    out.nt_many.push(crate::rng::fnv(&format!("{prefix:?}")));
    let switches = replays_only.windows(2).filter(|w| w[0].0 != w[1].0).count();
    out.add("thread_switches_observed", switches as u64);
    // ---- (b) separate processes (different ASLR layout, different hash seeds of the symbol interner)
    if processes > 0 {
        let exe = std::env::current_exe().unwrap();
        let has_symbols = h.ops.iter().any(|o| matches!(o, COp::Add(t) if t.split(|c: char| c == ' ' || c == '(' || c == ')').any(|tok| ["alpha", "beta", "gamma", "s17", "omega", "k"].contains(&tok))) || matches!(o, COp::Rewrite(rs) if rs.iter().any(|r| r.0 == "sym-intro")));
        let mut outs = vec![];
        // the last replay process interns unrelated symbols first ("what other threads are doing" in a real program)
        for k in 0..processes {
            let pre = if k + 1 == processes && processes >= 2 { 40 } else { 0 };
            let o = std::process::Command::new(&exe).arg("C20").arg(format!("one={case_seed}")).arg("transcript=1").arg(format!("preintern={pre}")).args(argv_extra).output();
            match o {
                Ok(o) => outs.push(String::from_utf8_lossy(&o.stdout).lines().filter(|l| !l.starts_with('{')).map(|l| l.to_string()).collect::<Vec<_>>()),
                Err(e) => {
                    out.inconclusive = Some(format!("cannot spawn replay process: {e}"));
                    return out;
                }
            }
            out.inc("process_replays");
        }
        if has_symbols {
            out.inc("histories_with_symbol_payloads");
        }
        for (i, o) in outs.iter().enumerate().skip(1) {
            if *o != outs[0] {
                let k = o.iter().zip(outs[0].iter()).position(|(a, b)| a != b).unwrap_or(o.len().min(outs[0].len()));
                let pre = i + 1 == processes && processes >= 2;
                // a difference that needs both symbol payloads and a different interning history is the known interner-order dependence
                let sig = if pre && has_symbols { "symbol-interning-order" } else if pre { "process-replay-after-unrelated-interning" } else { "process-replay" };
                out.fail(Fail::new("transcript-differs", sig, format!("process replay {i}{} differs from process replay 0 at line {k}: `{}` vs `{}`", if pre { " (which interned 40 unrelated symbols first)" } else { "" }, o.get(k).cloned().unwrap_or_default(), outs[0].get(k).cloned().unwrap_or_default()), cj.clone()));
                return out;
            }
        }
        // and the in-process baseline agrees with the processes on the transcript lines (dump output excluded)
        let tl: Vec<String> = outs[0].iter().filter_map(|l| l.strip_prefix("T ").map(|x| x.to_string())).filter(|l| !l.starts_with("dump-")).collect();
        if tl != base {
            let k = tl.iter().zip(base.iter()).position(|(a, b)| a != b).unwrap_or(tl.len().min(base.len()));
            // this worker process has interned the symbols of earlier cases, so for histories with Symbol payloads the comparison with
            // a fresh process is not meaningful beyond the directed replay above; it is judged for symbol-free histories only
            if !has_symbols {
                out.fail(Fail::new("transcript-differs", "process-vs-thread", format!("process transcript differs from the in-process baseline at line {k}: `{}` vs `{}`", tl.get(k).cloned().unwrap_or_default(), base.get(k).cloned().unwrap_or_default()), cj.clone()));
                return out;
            }
            out.inc("process_vs_thread_skipped_symbol_history");
        }
        let dump_lines = outs[0].iter().filter(|l| !l.starts_with("T ")).count();
        out.add("dump_lines_compared", dump_lines as u64);
    }
    out.add("transcript_lines", base.len() as u64);
    out.inc("histories");
    out.inc(match h.lang { "arith" => "histories_with_analysis_hooks", "sym" => "histories_symbolic_language", _ => "histories_payload_language" });
    out.nontrivial = Some(crate::rng::fnv(&format!("{:?}", h.ops)));
    out.sample = Some(J::obj(vec![("mode", J::s("replays")), ("ops", J::A(h.ops.iter().take(8).map(|o| J::s(format!("{o:?}"))).collect())), ("first_schedule_entries", J::s(format!("{prefix:?}")))]));
    out
}

/// One large batch: n structurally different terms, one rule that matches every one of them in a single `apply_rewrites` call
/// (match lists, pending work lists and hash maps far beyond the sizes of the generated histories), then probes. The transcript is
/// a digest per phase plus the probe lines.
fn big_transcript(n: usize, rule: usize) -> Result<Vec<String>, PanicInfo> {
    guard(|| {
        let mut out = vec![];
        let mut eg: EGraph<LPay> = EGraph::default();
        let mut ids = vec![];
        let mut dig = 0u64;
        for i in 0..n {
            let t = match rule {
                0 => format!("(app (cst {i}) (neg 1))"),
                1 => format!("(idx $p0 (cst {i}))"),
                _ => format!("(app (lam $p501 (var $p501)) (cst {i}))"),
            };
            let id = eg.add_expr(RecExpr::parse(&t).unwrap());
            dig = Rng::mix(dig, crate::rng::fnv(&format!("{id:?}")));
            ids.push(id);
        }
        out.push(format!("after {n} insertions: digest {dig:x} nodes={} classes={}", eg.total_number_of_nodes(), eg.ids().len()));
        let (l, r) = [("(app ?a ?b)", "?a"), ("(idx $x ?a)", "(app ?a (var $x))"), ("(app (lam $x ?b) ?t)", "?b[(var $x) := ?t]")][rule];
        let ms = ematch_all(&eg, &Pattern::parse(l).unwrap());
        let mut md = 0u64;
        for m in &ms {
            let mut v: Vec<(&String, &AppliedId)> = m.iter().collect();
            v.sort_by_key(|x| x.0.clone());
            md = Rng::mix(md, crate::rng::fnv(&format!("{v:?}")));
        }
        out.push(format!("ematch {l}: {} matches, digest of the list in returned order {md:x}", ms.len()));
        let changed = apply_rewrites(&mut eg, &[Rewrite::new("big", l, r)]);
        let p = eg.progress();
        out.push(format!("rewrite {l} => {r} -> {changed}; nodes={} progress=({}, {}, {}, {})", eg.total_number_of_nodes(), p.number_of_classes, p.number_of_live_classes, p.sum_of_slots, p.sum_of_symmetries));
        let mut idd = 0u64;
        for i in eg.ids() {
            idd = Rng::mix(idd, i.0 as u64);
        }
        out.push(format!("live ids digest {idd:x}"));
        let ex = Extractor::<LPay, AstSize>::new(&eg, AstSize);
        let mut fd = 0u64;
        for (k, id) in ids.iter().enumerate() {
            let f = eg.find_applied_id(id);
            fd = Rng::mix(fd, crate::rng::fnv(&format!("{f:?}")));
            if k % 257 == 0 || k + 3 >= n {
                out.push(format!("probe #{k}: find {f:?} extract {} cost {}", ex.extract(id, &eg), ex.get_best_cost::<()>(&f)));
            }
        }
        out.push(format!("find digest over all handles {fd:x}"));
        out
    })
}

fn run_big_case(rng: &mut Rng) -> CaseOut {
    let mut out = CaseOut::default();
    let n = rng.range(10_200, 40_000);
    let rule = rng.below(3);
    let cj = J::obj(vec![("mode", J::s("big-batch")), ("terms", J::I(n as i64)), ("rule", J::I(rule as i64))]);
    let run = move || std::thread::Builder::new().stack_size(256 << 20).spawn(move || big_transcript(n, rule)).unwrap();
    let base = match run().join().unwrap() {
        Ok(b) => b,
        Err(p) => {
            out.fail(Fail::panic("panic-in-history", &p, "the large batch panicked in its baseline run", cj));
            return out;
        }
    };
    // replays: one alone again (after the baseline has run in this process), then two concurrently
    let mut reps = vec![run().join().unwrap()];
    let (a, b) = (run(), run());
    reps.push(a.join().unwrap());
    reps.push(b.join().unwrap());
    for (k, r) in reps.into_iter().enumerate() {
        out.inc("big_batch_replays");
        match r {
            Ok(t) => {
                if let Some(i) = (0..base.len().max(t.len())).find(|i| base.get(*i) != t.get(*i)) {
                    out.fail(Fail::new("transcript-differs", "big-batch", format!("replay {k} of a batch of {n} terms differs from the first run at line {i}: `{}` vs `{}`", base.get(i).cloned().unwrap_or_default(), t.get(i).cloned().unwrap_or_default()), cj));
                    return out;
                }
            }
            Err(p) => {
                out.fail(Fail::panic("panic-only-in-replay", &p, &format!("replay {k} of the large batch"), cj));
                return out;
            }
        }
    }
    out.add("big_batch_terms", n as u64);
    out.nontrivial = Some(Rng::mix(n as u64, rule as u64));
    out.sample = Some(J::obj(vec![("mode", J::s("big-batch")), ("terms", J::I(n as i64)), ("lines", J::arr_s(&base.iter().take(4).cloned().collect::<Vec<_>>()))]));
    out
}

pub fn run(args: &Args, rep: &mut Rep) {
    if args.param_u("big", 0) == 1 {
        drive(args, rep, |rng, _| run_big_case(rng));
        return;
    }
    let directed = args.param_u("directed_kf1", 0) == 1;
    DIRECTED_KF1.with(|d| d.set(directed));
    if args.param_u("transcript", 0) == 1 {
        // child mode: print the transcript of one case (dump output goes to stdout in place)
        let cs = args.one.unwrap_or(0);
        for i in 0..args.param_u("preintern", 0) {
            let _: Symbol = format!("unrelated_symbol_{i}").parse().unwrap();
        }
        let mut rng = Rng::new(cs);
        let h = gen_chist(&mut rng, true);
        let _ = transcript(&h, true, &mut |_| {});
        std::process::exit(0);
    }
    let processes = args.param_u("processes", 3) as usize;
    let extra: Vec<String> = if directed { vec!["directed_kf1=1".to_string()] } else { vec![] };
    drive(args, rep, move |rng, cs| {
        DIRECTED_KF1.with(|d| d.set(directed));
        run_case(rng, cs, processes, &extra)
    });
}
