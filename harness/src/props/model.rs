//! C03 — rewriting with valid rules preserves meaning, including under binders.
//! Oracle: evaluation in a finite model (F_p, sum over D) of every e-node of every class against the class value.
use crate::core::*;
use crate::json::J;
use crate::langs::*;
use crate::rng::Rng;
use slotted_egraphs::*;
use std::cell::RefCell;
use std::collections::{BTreeMap, HashMap};

#[derive(Clone, Copy, Debug)]
pub struct Model {
    pub p: u32,
    pub d: u32, // D = {0..d-1}
    pub name: &'static str,
}
pub const M1: Model = Model { p: 7, d: 3, name: "M1(F_7, D={0,1,2})" };
pub const M2: Model = Model { p: 3, d: 3, name: "M2(F_3, D=F_3)" };

pub type Env = BTreeMap<Slot, u32>;

pub fn eval_re(m: Model, t: &RecExpr<LArith>, env: &Env) -> Result<u32, String> {
    Ok(match &t.node {
        LArith::Num(k) => k % m.p,
        LArith::Var(s) => *env.get(s).ok_or_else(|| format!("unbound slot {s:?}"))?,
        LArith::Add(..) => (eval_re(m, &t.children[0], env)? + eval_re(m, &t.children[1], env)?) % m.p,
        LArith::Mul(..) => (eval_re(m, &t.children[0], env)? * eval_re(m, &t.children[1], env)?) % m.p,
        LArith::Sum(b) => {
            let mut acc = 0;
            for v in 0..m.d {
                let mut e = env.clone();
                e.insert(b.slot, v);
                acc = (acc + eval_re(m, &t.children[0], &e)?) % m.p;
            }
            acc
        }
        LArith::Let(b, _) => {
            let v = eval_re(m, &t.children[1], env)?;
            let mut e = env.clone();
            e.insert(b.slot, v);
            eval_re(m, &t.children[0], &e)?
        }
    })
}

/// evaluator over an e-graph: class value = value of an own least-rank representative e-node
pub struct Ev<'a, N: Analysis<LArith>> {
    pub eg: &'a EGraph<LArith, N>,
    pub m: Model,
    rep: HashMap<Id, LArith>,
    memo: RefCell<HashMap<(Id, Vec<(Slot, u32)>), u32>>,
    rng: RefCell<Rng>,
    pub evals: RefCell<u64>,
}

impl<'a, N: Analysis<LArith>> Ev<'a, N> {
    pub fn new(eg: &'a EGraph<LArith, N>, m: Model, seed: u64) -> Self {
        let mut rank: HashMap<Id, usize> = HashMap::new();
        let mut rep: HashMap<Id, LArith> = HashMap::new();
        let nodes: Vec<(Id, Vec<LArith>)> = eg.ids().into_iter().map(|i| (i, { let mut v: Vec<LArith> = eg.enodes(i).into_iter().collect(); v.sort(); v })).collect();
        loop {
            let mut ch = false;
            for (i, ns) in &nodes {
                for n in ns {
                    let ks: Option<Vec<usize>> = n.applied_id_occurrences().iter().map(|a| rank.get(&a.id).copied()).collect();
                    if let Some(ks) = ks {
                        let r = 1 + ks.iter().sum::<usize>();
                        if rank.get(i).map(|o| r < *o).unwrap_or(true) {
                            rank.insert(*i, r);
                            rep.insert(*i, n.clone());
                            ch = true;
                        }
                    }
                }
            }
            if !ch {
                break;
            }
        }
        Ev { eg, m, rep, memo: Default::default(), rng: RefCell::new(Rng::new(seed)), evals: RefCell::new(0) }
    }
    pub fn has_value(&self, i: Id) -> bool {
        self.rep.contains_key(&i)
    }
    pub fn app(&self, a: &AppliedId, env: &Env) -> Result<u32, String> {
        let a = self.eg.find_applied_id(a);
        let mut e2 = Env::new();
        for (k, v) in a.m.iter() {
            e2.insert(k, *env.get(&v).ok_or_else(|| format!("environment lacks {v:?} needed by {a:?}"))?);
        }
        self.class(a.id, &e2)
    }
    pub fn class(&self, i: Id, env: &Env) -> Result<u32, String> {
        let mut key: Vec<(Slot, u32)> = vec![];
        for s in self.eg.slots(i).iter() {
            key.push((*s, *env.get(s).ok_or_else(|| format!("environment lacks class slot {s:?} of {i:?}"))?));
        }
        key.sort();
        if let Some(v) = self.memo.borrow().get(&(i, key.clone())) {
            return Ok(*v);
        }
        let n = self.rep.get(&i).ok_or_else(|| format!("class {i:?} has no finite term"))?.clone();
        let v = self.node(&n, env)?;
        self.memo.borrow_mut().insert((i, key), v);
        Ok(v)
    }
    /// value of an e-node under an environment over (at least) its class slots; other free slots of the node are
    /// redundant and get independent random values at every evaluation
    pub fn node(&self, n: &LArith, env: &Env) -> Result<u32, String> {
        *self.evals.borrow_mut() += 1;
        let mut env = env.clone();
        for s in n.slots() {
            if !env.contains_key(&s) {
                let v = self.rng.borrow_mut().below(self.m.p as usize) as u32;
                env.insert(s, v);
            }
        }
        let m = self.m;
        Ok(match n {
            LArith::Num(k) => k % m.p,
            LArith::Var(s) => env[s],
            LArith::Add(a, b) => (self.app(a, &env)? + self.app(b, &env)?) % m.p,
            LArith::Mul(a, b) => (self.app(a, &env)? * self.app(b, &env)?) % m.p,
            LArith::Sum(b) => {
                let mut acc = 0;
                for v in 0..m.d {
                    let mut e = env.clone();
                    e.insert(b.slot, v);
                    acc = (acc + self.app(&b.elem, &e)?) % m.p;
                }
                acc
            }
            LArith::Let(b, t) => {
                let v = self.app(t, &env)?;
                let mut e = env.clone();
                e.insert(b.slot, v);
                self.app(&b.elem, &e)?
            }
        })
    }
}

pub fn gen_arith(r: &mut Rng, depth: usize, scope: &mut Vec<String>, fresh: &mut usize, shadow: bool) -> String {
    if depth == 0 || r.below(4) == 0 {
        if !scope.is_empty() && r.below(3) != 0 {
            let v = format!("(var ${})", scope[r.below(scope.len())]);
            // unit-decorated occurrences next to plain ones: the unit rules merge the class of the variable with a composite class
            // (either of the two may be the one that survives)
            match r.below(10) {
                0 => format!("(mul {v} 1)"),
                1 => format!("(add {v} 0)"),
                _ => v,
            }
        } else {
            format!("{}", r.below(5))
        }
    } else {
        match r.below(6) {
            0 | 1 => format!("(add {} {})", gen_arith(r, depth - 1, scope, fresh, shadow), gen_arith(r, depth - 1, scope, fresh, shadow)),
            2 => format!("(mul {} {})", gen_arith(r, depth - 1, scope, fresh, shadow), gen_arith(r, depth - 1, scope, fresh, shadow)),
            3 | 4 => {
                let x = if shadow && !scope.is_empty() && r.chance(1, 3) { scope[r.below(scope.len())].clone() } else { *fresh += 1; format!("b{}", *fresh) };
                scope.push(x.clone());
                let b = gen_arith(r, depth - 1, scope, fresh, shadow);
                scope.pop();
                format!("(sum ${x} {b})")
            }
            _ => {
                let e = gen_arith(r, depth - 1, scope, fresh, shadow);
                let x = if shadow && !scope.is_empty() && r.chance(1, 3) { scope[r.below(scope.len())].clone() } else { *fresh += 1; format!("b{}", *fresh) };
                scope.push(x.clone());
                let b = gen_arith(r, depth - 1, scope, fresh, shadow);
                scope.pop();
                format!("(let ${x} {b} {e})")
            }
        }
    }
}

#[derive(Clone, Debug)]
pub struct RuleSpec {
    pub name: &'static str,
    pub lhs: &'static str,
    pub rhs: &'static str,
    /// Some((slot, var)): only if `slot` does not occur in the binding of `var`
    pub not_free: Option<(&'static str, &'static str)>,
}

pub fn rule_pool(m: Model) -> Vec<RuleSpec> {
    let r = |name, lhs, rhs| RuleSpec { name, lhs, rhs, not_free: None };
    let c = |name, lhs, rhs, s, v| RuleSpec { name, lhs, rhs, not_free: Some((s, v)) };
    let mut v = vec![
        r("add-comm", "(add ?a ?b)", "(add ?b ?a)"),
        r("mul-comm", "(mul ?a ?b)", "(mul ?b ?a)"),
        r("add-assoc", "(add ?a (add ?b ?c))", "(add (add ?a ?b) ?c)"),
        r("mul-assoc", "(mul ?a (mul ?b ?c))", "(mul (mul ?a ?b) ?c)"),
        r("distr", "(mul ?a (add ?b ?c))", "(add (mul ?a ?b) (mul ?a ?c))"),
        r("factor", "(add (mul ?a ?b) (mul ?a ?c))", "(mul ?a (add ?b ?c))"),
        r("add-0", "(add ?a 0)", "?a"),
        r("mul-1", "(mul ?a 1)", "?a"),
        r("mul-0", "(mul ?a 0)", "0"),
        r("sum-add", "(sum $x (add ?a ?b))", "(add (sum $x ?a) (sum $x ?b))"),
        r("sum-swap", "(sum $x (sum $y ?a))", "(sum $y (sum $x ?a))"),
        c("sum-mul-out", "(sum $x (mul ?c ?a))", "(mul ?c (sum $x ?a))", "x", "c"),
        r("mul-into-sum", "(mul ?c (sum $x ?a))", "(sum $x (mul ?c ?a))"),
        r("add-into-let", "(add ?c (let $x ?a ?e))", "(let $x (add ?c ?a) ?e)"),
        r("sum-rebind", "(sum $x ?a)", "(sum $y (let $x ?a (var $y)))"),
        c("let-unused", "(let $x ?b ?e)", "?b", "x", "b"),
        r("let-var", "(let $x (var $x) ?e)", "?e"),
        r("let-add", "(let $x (add ?a ?b) ?e)", "(add (let $x ?a ?e) (let $x ?b ?e))"),
        r("let-mul", "(let $x (mul ?a ?b) ?e)", "(mul (let $x ?a ?e) (let $x ?b ?e))"),
        r("let-sum", "(let $x (sum $y ?b) ?e)", "(sum $y (let $x ?b ?e))"),
        r("let-subst", "(let $x ?b ?e)", "?b[(var $x) := ?e]"),
        r("let-intro", "(mul ?a ?a)", "(let $z (mul (var $z) (var $z)) ?a)"),
        r("add-self", "(add ?a ?a)", "(mul 2 ?a)"),
    ];
    if m.p == 7 {
        v.push(c("sum-const", "(sum $x ?a)", "(mul 3 ?a)", "x", "a"));
        v.push(r("sum-var", "(sum $x (var $x))", "3"));
    } else {
        v.push(c("sum-const", "(sum $x ?a)", "0", "x", "a"));
        v.push(r("sum-var", "(sum $x (var $x))", "0"));
        // summation over the whole field is shift invariant
        v.push(r("sum-shift", "(sum $x ?a)", "(sum $y (let $x ?a (add (var $y) 1)))"));
    }
    v
}

/// the sensitivity probe: invalid without its side condition (kept outside the pools)
pub fn bad_rule() -> RuleSpec {
    RuleSpec { name: "BAD-sum-mul-out-unconditional", lhs: "(sum $x (mul ?c ?a))", rhs: "(mul ?c (sum $x ?a))", not_free: None }
}

/// A conditional rule's side condition "slot `s` does not occur in the binding of `v`" is built in one of eight equivalent ways, chosen
/// per (case, rule): the harness's own closure, or the crate's public condition combinators `slot_free_in`, `not`, `and`, `or`
/// (a user writes conditional rules with these; all five must behave alike).
/// pattern variables of a rule text renamed by a scheme that varies with the case (substitutions are hash maps keyed by the variable
/// name: other lengths and spellings give other iteration orders); the renaming is injective
pub fn ren_vars(t: &str) -> String {
    let scheme = (crate::core::case_salt() >> 7) % 3;
    if scheme == 0 {
        return t.to_string();
    }
    let cs: Vec<char> = t.chars().collect();
    let mut out = String::new();
    let mut i = 0;
    while i < cs.len() {
        out.push(cs[i]);
        if cs[i] == '?' {
            let mut j = i + 1;
            while j < cs.len() && (cs[j].is_alphanumeric() || cs[j] == '_') {
                j += 1;
            }
            let id: String = cs[i + 1..j].iter().collect();
            out.push_str(&ren_var(&id));
            i = j;
            continue;
        }
        i += 1;
    }
    out
}
pub fn ren_var(id: &str) -> String {
    match (crate::core::case_salt() >> 7) % 3 {
        1 => format!("{id}_{}", id.len() + 3),
        2 => format!("w{id}{id}"),
        _ => id.to_string(),
    }
}

pub fn mk_rewrite<N: Analysis<LArith> + 'static>(r: &RuleSpec) -> Rewrite<LArith, N> {
    let (lhs_s, rhs_s) = (ren_vars(r.lhs), ren_vars(r.rhs));
    let vs: Option<(&'static str, String)> = r.not_free.map(|(s, v)| (s, ren_var(v)));
    struct R2<'a> { name: &'static str, lhs: &'a str, rhs: &'a str, not_free: Option<(&'static str, &'a str)> }
    let r = R2 { name: r.name, lhs: &lhs_s, rhs: &rhs_s, not_free: vs.as_ref().map(|(s, v)| (*s, v.as_str())) };
    match r.not_free {
        // an unconditional rule with a plain right side is, in a third of the (case, rule) pairs, built the way a user builds a custom
        // rule: RewriteT with ematch_all as searcher and union_instantiations per match as applier
        None if !r.rhs.contains('[') && (crate::core::case_salt() ^ crate::rng::fnv(r.name)) % 3 == 0 => {
            let (a, b) = (Pattern::<LArith>::parse(r.lhs).unwrap(), Pattern::<LArith>::parse(r.rhs).unwrap());
            let (a2, name) = (a.clone(), r.name.to_string());
            RewriteT { searcher: Box::new(move |eg: &EGraph<LArith, N>| ematch_all(eg, &a)), applier: Box::new(move |substs: Vec<Subst>, eg: &mut EGraph<LArith, N>| {
                for s in substs {
                    eg.union_instantiations(&a2, &b, &s, Some(name.clone()));
                }
            }) }.into()
        }
        None => Rewrite::new(r.name, r.lhs, r.rhs),
        Some((s, v)) => {
            let form = (crate::core::case_salt() ^ crate::rng::fnv(r.name)) % 8;
            let own = {
                let (s, v) = (s.to_string(), v.to_string());
                move |subst: &Subst, _: &EGraph<LArith, N>| !subst[&v].slots().contains(&Slot::named(&s))
            };
            match form {
                0 => Rewrite::new_if(r.name, r.lhs, r.rhs, own),
                1 => Rewrite::new_if(r.name, r.lhs, r.rhs, slot_free_in::<LArith, N>(s, v)),
                2 => Rewrite::new_if(r.name, r.lhs, r.rhs, not::<LArith, N>(not::<LArith, N>(slot_free_in::<LArith, N>(s, v)))),
                3 => Rewrite::new_if(r.name, r.lhs, r.rhs, and::<LArith, N>(slot_free_in::<LArith, N>(s, v), own)),
                // constants make each combinator's whole truth table matter: a `not` that is the identity, an `and` that is an `or` ... turn the
                // condition into `true` and let the rule fire where it is invalid
                5 => Rewrite::new_if(r.name, r.lhs, r.rhs, or::<LArith, N>(slot_free_in::<LArith, N>(s, v), not::<LArith, N>(|_: &Subst, _: &EGraph<LArith, N>| true))),
                6 => Rewrite::new_if(r.name, r.lhs, r.rhs, and::<LArith, N>(|_: &Subst, _: &EGraph<LArith, N>| true, slot_free_in::<LArith, N>(s, v))),
                7 => Rewrite::new_if(r.name, r.lhs, r.rhs, not::<LArith, N>(or::<LArith, N>(not::<LArith, N>(slot_free_in::<LArith, N>(s, v)), |_: &Subst, _: &EGraph<LArith, N>| false))),
                // x or (x and not x)  ==  x
                _ => Rewrite::new_if(r.name, r.lhs, r.rhs, or::<LArith, N>(and::<LArith, N>(slot_free_in::<LArith, N>(s, v), not::<LArith, N>(slot_free_in::<LArith, N>(s, v))), slot_free_in::<LArith, N>(s, v))),
            }
        }
    }
}

fn envs(m: Model, slots: &[Slot], rng: &mut Rng, n: usize) -> Vec<Env> {
    let k = slots.len() as u32;
    if (m.p as u64).checked_pow(k).map(|x| x <= 343).unwrap_or(false) {
        // exhaustive
        let mut out = vec![Env::new()];
        for s in slots {
            let mut nx = vec![];
            for e in &out {
                for v in 0..m.p {
                    let mut e2 = e.clone();
                    e2.insert(*s, v);
                    nx.push(e2);
                }
            }
            out = nx;
        }
        out
    } else {
        (0..n).map(|_| slots.iter().map(|s| (*s, rng.below(m.p as usize) as u32)).collect()).collect()
    }
}

/// check every class / e-node of the e-graph in the model; returns Err(description) on a disagreement
pub fn check_egraph<N: Analysis<LArith>>(eg: &EGraph<LArith, N>, m: Model, rng: &mut Rng, out: &mut CaseOut) -> Result<(), (String, String)> {
    let ev = Ev::new(eg, m, rng.next());
    for i in eg.ids() {
        if !ev.has_value(i) {
            continue;
        }
        let mut slots: Vec<Slot> = eg.slots(i).iter().copied().collect();
        slots.sort();
        let ident = eg.mk_identity_applied_id(i);
        let applied = eg.enodes_applied(&ident);
        for env in envs(m, &slots, rng, 10) {
            let cv = ev.class(i, &env).map_err(|e| ("eval-error".to_string(), e))?;
            for nd in eg.enodes(i) {
                if !nd.applied_id_occurrences().iter().all(|c| ev.has_value(c.id)) {
                    continue;
                }
                for _ in 0..2 {
                    let v = ev.node(&nd, &env).map_err(|e| ("eval-error".to_string(), format!("{nd:?}: {e}")))?;
                    out.inc("enode_evaluations");
                    if v != cv {
                        return Err(("enode-value-differs".into(), format!("{}: e-node {nd:?} of class {i:?} evaluates to {v}, the class to {cv}, under {env:?}", m.name)));
                    }
                }
            }
            for nd in &applied {
                if !nd.applied_id_occurrences().iter().all(|c| ev.has_value(c.id)) {
                    continue;
                }
                let v = ev.node(nd, &env).map_err(|e| ("eval-error".to_string(), format!("enodes_applied {nd:?}: {e}")))?;
                out.inc("enode_evaluations");
                if v != cv {
                    return Err(("enodes_applied-value-differs".into(), format!("{}: enodes_applied gives {nd:?} for class {i:?}: value {v}, class value {cv}, under {env:?}", m.name)));
                }
            }
        }
        out.inc("classes_evaluated");
    }
    Ok(())
}

thread_local! {
    pub static DIRECTED: std::cell::RefCell<Option<(String, Vec<String>, String, usize, bool)>> = std::cell::RefCell::new(None);
}

/// substitution-focused lane: the start term is a `let` whose body mentions the bound variable plainly and unit-decorated, the rule
/// set always contains the substitution rule and the unit rules (which merge the variable's class with composite classes)
pub static SUBST_FOCUS: std::sync::atomic::AtomicBool = std::sync::atomic::AtomicBool::new(false);
pub static SWAPPED_FOCUS: std::sync::atomic::AtomicBool = std::sync::atomic::AtomicBool::new(false);

pub fn run_case(rng: &mut Rng, bad: bool) -> CaseOut {
    let mut out = CaseOut::default();
    let subst_focus = SUBST_FOCUS.load(std::sync::atomic::Ordering::Relaxed);
    let directed = DIRECTED.with(|d| d.borrow().clone());
    let m = if let Some(d) = &directed { if d.2 == "M2" { M2 } else { M1 } } else if rng.chance(2, 3) { M1 } else { M2 };
    let mut scope = vec!["p".to_string(), "q".to_string()];
    let mut fresh = 0;
    let d0 = rng.range(2, 4);
    let shadow = rng.chance(1, 3);
    let mut t = gen_arith(rng, d0, &mut scope, &mut fresh, shadow);
    if subst_focus {
        scope.push("bz".to_string());
        let body = gen_arith(rng, d0.min(3), &mut scope, &mut fresh, shadow);
        scope.pop();
        let arg = gen_arith(rng, 1, &mut scope, &mut fresh, shadow);
        t = format!("(let $bz (add (var $bz) {body}) {arg})");
        if rng.chance(1, 2) {
            t = format!("(add {t} (mul (mul (var $p) 1) (add (mul (var $p) 1) 2)))");
        }
    }
    // swapped-pair family: one two-parameter subterm next to its copy with the two parameters exchanged, under the operators the
    // repeated-variable rules (factor, let-intro, add-self) match: `T[p,q] + T[q,p]` is an instance of `?a + ?a` only if T is symmetric
    let swapped_pair = !subst_focus && directed.is_none() && (rng.chance(1, 5) || SWAPPED_FOCUS.load(std::sync::atomic::Ordering::Relaxed));
    if swapped_pair {
        let mut inner = String::new();
        for _ in 0..10 {
            let mut sc = vec!["p".to_string(), "q".to_string()];
            let dd = rng.range(1, 2);
            let c = gen_arith(rng, dd, &mut sc, &mut fresh, false);
            if c.contains("(var $p)") && c.contains("(var $q)") {
                inner = c;
                break;
            }
        }
        if inner.is_empty() {
            inner = "(mul (var $p) (add (var $q) 1))".to_string();
        }
        let sw = inner.replace("(var $p)", "(var $#)").replace("(var $q)", "(var $p)").replace("(var $#)", "(var $q)");
        let pair = match rng.below(4) {
            0 => format!("(add {inner} {sw})"),
            1 => format!("(mul {inner} {sw})"),
            2 => format!("(add (mul {inner} (var $p)) (mul {sw} 2))"),
            _ => format!("(sum $bw (add (mul {inner} (var $bw)) (mul {sw} (var $bw))))"),
        };
        t = if rng.chance(1, 2) { pair } else { format!("(add {t} {pair})") };
    }
    if let Some(d) = &directed {
        t = d.0.clone();
    }
    let pool = rule_pool(m);
    let mut chosen: Vec<RuleSpec> = vec![];
    let k = rng.range(2, 8);
    let mut idx = rng.perm(pool.len());
    idx.truncate(k);
    for i in idx {
        chosen.push(pool[i].clone());
    }
    if swapped_pair {
        chosen.truncate(4);
        for n in ["factor", "let-intro", "add-self"] {
            if !chosen.iter().any(|r| r.name == n) {
                if let Some(r) = pool.iter().find(|r| r.name == n) {
                    chosen.push(r.clone());
                }
            }
        }
        out.inc("runs_swapped_pair");
    }
    if subst_focus {
        chosen.truncate(3);
        for n in ["let-subst", "mul-1", "add-0"] {
            if !chosen.iter().any(|r| r.name == n) {
                if let Some(r) = pool.iter().find(|r| r.name == n) {
                    chosen.push(r.clone());
                }
            }
        }
    }
    if bad {
        chosen.push(bad_rule());
    }
    let mut iters = rng.range(1, 5);
    let extraction_subst = rng.chance(1, 2);
    let mut use_runner = rng.chance(1, 4);
    if let Some(d) = &directed {
        chosen = d.1.iter().filter_map(|n| pool.iter().find(|r| r.name == n).cloned()).collect();
        iters = d.3;
        use_runner = d.4;
    }
    let names: Vec<String> = chosen.iter().map(|r| format!("{}: {} => {}{}", r.name, r.lhs, r.rhs, r.not_free.map(|(s, v)| format!(" if ${s} not in ?{v}")).unwrap_or_default())).collect();
    let cj = J::obj(vec![("term", J::s(t.clone())), ("model", J::s(m.name)), ("rules", J::arr_s(&names)), ("iterations", J::I(iters as i64)), ("extraction_subst", J::B(extraction_subst)), ("runner", J::B(use_runner))]);
    let re: RecExpr<LArith> = RecExpr::parse(&t).unwrap();
    let mut eg: EGraph<LArith> = if extraction_subst { EGraph::with_subst_method::<ExtractionSubst>(()) } else { EGraph::new(()) };
    let root = match guard(|| eg.add_expr(re.clone())) {
        Ok(r) => r,
        Err(p) => {
            out.fail(Fail::panic("panic", &p, "add_expr of the start term", cj));
            return out;
        }
    };
    let rws: Vec<Rewrite<LArith>> = chosen.iter().map(mk_rewrite).collect();
    let mut binder_rule_fired = false;
    let mut grew = false;
    let (p, q) = (Slot::named("p"), Slot::named("q"));
    let mut eg_opt = Some(eg);
    for it in 0..iters {
        let mut eg = eg_opt.take().unwrap();
        if eg.total_number_of_nodes() > 150 {
            eg_opt = Some(eg);
            break;
        }
        let before = eg.total_number_of_nodes();
        let r = guard(|| {
            if use_runner {
                let mut runner: Runner<LArith, (), (), String> = Runner::new(()).with_egraph(eg).with_iter_limit(0).with_node_limit(600);
                runner.run(&rws);
                runner.egraph
            } else {
                apply_rewrites(&mut eg, &rws);
                eg
            }
        });
        let eg = match r {
            Ok(e) => e,
            Err(p) => {
                out.fail(Fail::panic("panic", &p, &format!("rewrite iteration {it}"), cj));
                return out;
            }
        };
        if eg.total_number_of_nodes() > before {
            grew = true;
            if chosen.iter().any(|r| r.lhs.contains('$') || r.rhs.contains('$')) {
                binder_rule_fired = true;
            }
        }
        out.inc("iterations");
        if eg.total_number_of_nodes() > 600 {
            out.inc("runs_over_node_budget");
            eg_opt = Some(eg);
            break;
        }
        let res = guard(|| -> Result<(), (String, String)> {
            check_egraph(&eg, m, rng, &mut out)?;
            // the originally inserted term vs. its class
            let ev = Ev::new(&eg, m, rng.next());
            for env in envs(m, &[p, q], rng, 10) {
                let want = eval_re(m, &re, &env).map_err(|e| ("eval-error".to_string(), e))?;
                let got = ev.app(&root, &env).map_err(|e| ("eval-error".to_string(), e))?;
                out.inc("root_evaluations");
                if want != got {
                    return Err(("root-value-differs".into(), format!("{}: the start term evaluates to {want}, its class to {got}, under {env:?} after iteration {it}", m.name)));
                }
            }
            Ok(())
        });
        match res {
            Ok(Ok(())) => {}
            Ok(Err((sig, d))) => {
                out.fail(Fail::new("meaning-not-preserved", sig, d, cj));
                return out;
            }
            Err(p) => {
                out.fail(Fail::check_panic(&p, &format!("model check after iteration {it}"), cj));
                return out;
            }
        }
        eg_opt = Some(eg);
    }
    out.inc("runs");
    for r in &chosen {
        if r.rhs.contains('[') {
            out.inc("runs_with_subst_rule");
        }
        if r.not_free.is_none() && !r.rhs.contains('[') && (crate::core::case_salt() ^ crate::rng::fnv(r.name)) % 3 == 0 {
            out.inc("rules_built_through_RewriteT_and_union_instantiations");
        }
        if r.not_free.is_some() {
            out.inc("runs_with_conditional_rule");
            if (crate::core::case_salt() ^ crate::rng::fnv(r.name)) % 8 != 0 {
                out.inc("conditions_built_from_crate_combinators");
            }
        }
    }
    if extraction_subst {
        out.inc("runs_extraction_subst");
    }
    if binder_rule_fired && grew {
        out.nontrivial = Some(crate::rng::fnv(&format!("{t}{names:?}{}", m.name)));
    }
    out.sample = Some(J::obj(vec![("mode", J::s(m.name)), ("term", J::s(t)), ("rules", J::arr_s(&names)), ("iterations", J::I(iters as i64))]));
    out
}

pub fn run(args: &Args, rep: &mut Rep) {
    let bad = args.param_u("bad", 0) == 1;
    SUBST_FOCUS.store(args.param_u("subst", 0) == 1, std::sync::atomic::Ordering::Relaxed);
    SWAPPED_FOCUS.store(args.param_u("swapped", 0) == 1, std::sync::atomic::Ordering::Relaxed);
    // directed reproduction: term=... rules=a,b model=M1|M2 iters=n runner=0|1
    let dir = args.params.get("term").map(|t| (t.clone(), args.param_s("rules", "").split(',').map(|x| x.to_string()).collect::<Vec<_>>(), args.param_s("model", "M1"), args.param_u("iters", 2) as usize, args.param_u("runner", 0) == 1));
    drive(args, rep, move |rng, _| {
        DIRECTED.with(|d| *d.borrow_mut() = dir.clone());
        run_case(rng, bad)
    });
}
