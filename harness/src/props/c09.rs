//! C09 — insertion is canonical; lookup agrees with add.
use crate::cc::*;
use crate::core::*;
use crate::gen::*;
use crate::json::J;
use crate::langs::*;
use crate::rng::Rng;
use crate::sym::*;
use crate::tm::*;
use slotted_egraphs::*;
use std::collections::{BTreeMap, BTreeSet};

fn fp(eg: &EGraph<LSym>) -> (usize, usize, usize, usize, usize, Vec<Id>) {
    let p = eg.progress();
    (p.number_of_classes, p.number_of_live_classes, p.sum_of_slots, p.sum_of_symmetries, eg.total_number_of_nodes(), eg.ids())
}

/// replace the first closed occurrence (no enclosing binder captures anything of it) of `from` (alpha) in `t` by `to`
fn replace_closed(t: &Tm, from: &Tm, to: &Tm, done: &mut bool, bound: &mut Vec<Name>) -> Tm {
    if !*done && t.canon() == from.canon() && t.fv().iter().all(|n| !bound.contains(n)) && to.fv().iter().all(|n| !bound.contains(n)) {
        *done = true;
        return to.clone();
    }
    let mut kids = vec![];
    for (bs, k) in &t.kids {
        let n = bound.len();
        bound.extend(bs.iter().copied());
        kids.push((bs.clone(), replace_closed(k, from, to, done, bound)));
        bound.truncate(n);
    }
    Tm { op: t.op, slots: t.slots.clone(), kids, pay: t.pay.clone() }
}

pub fn run_case(rng: &mut Rng) -> CaseOut {
    let mut out = CaseOut::default();
    let lang = &LSYM;
    let ns = rng.range(2, 3);
    let ops: Vec<&'static str> = match rng.below(3) {
        0 => SYM_OPS_BASIC.to_vec(),
        1 => vec!["f", "g", "h", "k", "var", "c", "d", "u", "w", "app", "pair", "lam", "sum", "let", "bb", "idx"],
        // every field order the language has: a slot argument left and right of a binder, three children
        _ => vec!["f", "g", "k", "var", "c", "d", "u", "app", "lam", "sum", "let", "bb", "idx", "sb", "bsl", "sb", "bsl", "ite"],
    };
    let cfg = GenCfg { lang, ops, ns, max_depth: 2, max_names: 3, shadow: rng.chance(1, 2) };
    let mut h = gen_history(rng, &cfg, 5, 4);
    // wrappers over earlier terms, so that "equal through earlier unions of subterms" probes exist
    let base_n = h.terms.len();
    for _ in 0..rng.range(1, 3) {
        let i = rng.below(base_n);
        let j = rng.below(base_n);
        let t = match rng.below(4) {
            0 => Tm::node("u", vec![], vec![(vec![], h.terms[i].clone())]),
            1 => Tm::node("app", vec![], vec![(vec![], h.terms[i].clone()), (vec![], h.terms[j].clone())]),
            2 => Tm::node("pair", vec![], vec![(vec![], h.terms[j].clone()), (vec![], h.terms[i].clone())]),
            _ => Tm::node("lam", vec![], vec![(vec![BINDER_BASE + 90], h.terms[i].clone())]),
        };
        if t.max_names() <= 3 {
            h.terms.push(t);
            let k = rng.below(h.ops.len() + 1);
            h.ops.insert(k, HOp::Add(h.terms.len() - 1));
        }
    }
    let cj = h.json(lang);
    let pool = pool_for(h.max_names().max(1), ns);
    let mut cc = CC::new(pool);
    let mut eg: EGraph<LSym> = EGraph::default();
    let mut ids: BTreeMap<usize, AppliedId> = BTreeMap::new();
    let mut unions: Vec<(usize, usize)> = vec![];
    let mut raw_bad: Option<String> = None;
    let r = guard(|| {
        for op in &h.ops {
            match op {
                HOp::Add(i) => {
                    let id = eg.add_expr(to_rec::<LSym>(lang, &h.terms[*i]));
                    if raw_bad.is_none() && id.slots() != eg.find_applied_id(&id).slots() {
                        raw_bad = Some(format!("add_expr({}) returned {id:?}, canonical form {:?}", h.terms[*i].text(lang, &pname), eg.find_applied_id(&id)));
                    }
                    ids.insert(*i, id);
                }
                HOp::Union(a, b) => {
                    for t in [a, b] {
                        if !ids.contains_key(t) {
                            let id = eg.add_expr(to_rec::<LSym>(lang, &h.terms[*t]));
                            if raw_bad.is_none() && id.slots() != eg.find_applied_id(&id).slots() {
                                raw_bad = Some(format!("add_expr({}) returned {id:?}, canonical form {:?}", h.terms[*t].text(lang, &pname), eg.find_applied_id(&id)));
                            }
                            ids.insert(*t, id);
                        }
                    }
                    let (x, y) = (ids[a].clone(), ids[b].clone());
                    eg.union(&x, &y);
                    unions.push((*a, *b));
                }
            }
        }
    });
    if r.is_err() {
        out.inconclusive = Some("history panicked (reported by C02/C08)".into());
        return out;
    }
    if let Some(d) = raw_bad {
        out.fail(Fail::new("returned-invocation-not-canonical", "history/add_expr", d, cj.clone()));
        return out;
    }
    for op in &h.ops {
        match op {
            HOp::Add(i) => cc.add_instances(&h.terms[*i]),
            HOp::Union(a, b) => {
                cc.add_instances(&h.terms[*a]);
                cc.add_instances(&h.terms[*b]);
                cc.assert_eq(&h.terms[*a], &h.terms[*b]);
            }
        }
    }
    cc.saturate();

    // ---- probes
    #[derive(Clone)]
    struct Probe {
        t: Tm,
        /// Some((index of inserted term, renaming)) if the probe must be represented and equal to that term renamed
        expect: Option<(usize, BTreeMap<Name, Name>)>,
        kind: &'static str,
    }
    let mut probes: Vec<Probe> = vec![];
    let inserted: Vec<usize> = ids.keys().copied().collect();
    for &i in &inserted {
        let t = &h.terms[i];
        let idm = BTreeMap::new();
        probes.push(Probe { t: t.clone(), expect: Some((i, idm.clone())), kind: "literal" });
        // alpha variant: canonical bound names
        if !t.kids.is_empty() {
            probes.push(Probe { t: t.canon(), expect: Some((i, idm.clone())), kind: "alpha-variant" });
        }
        // renamed free slots (injective, may permute or move to new names)
        let fv: Vec<Name> = t.fv().into_iter().collect();
        if !fv.is_empty() {
            let mut targets: Vec<Name> = (0..(ns as Name + 3)).collect();
            rng.shuffle(&mut targets);
            let nu: BTreeMap<Name, Name> = fv.iter().copied().zip(targets.into_iter()).collect();
            probes.push(Probe { t: t.canon().rename(&nu), expect: Some((i, nu)), kind: "renamed" });
        }
        // equal through earlier unions of subterms
        for &(a, b) in &unions {
            for (from, to) in [(a, b), (b, a)] {
                if from == i {
                    continue;
                }
                let mut done = false;
                let t2 = replace_closed(t, &h.terms[from], &h.terms[to], &mut done, &mut vec![]);
                if done && t2.canon() != t.canon() && t2.max_names() <= 3 {
                    probes.push(Probe { t: t2, expect: Some((i, idm.clone())), kind: "equal-subterm" });
                }
            }
        }
        // proper subterms (closed ones): must be represented, no expectation on identity
        let mut subs = vec![];
        t.subterms(&mut subs);
        for s in subs.into_iter().skip(1).take(3) {
            if s.fv().iter().all(|n| *n < BOUND) {
                probes.push(Probe { t: s, expect: None, kind: "subterm" });
            }
        }
    }
    for _ in 0..3 {
        probes.push(Probe { t: gen_closed_term(rng, &cfg), expect: None, kind: "random" });
    }
    rng.shuffle(&mut probes);
    probes.truncate(14);

    let mut nontrivial = false;
    for pr in &probes {
        let txt = pr.t.text(lang, &pname);
        let re = to_rec::<LSym>(lang, &pr.t);
        let before = fp(&eg);
        let lk = match guard(|| lookup_rec_expr(&re, &eg)) {
            Ok(x) => x,
            Err(p) => {
                out.fail(Fail::panic("panic-in-lookup", &p, &format!("lookup_rec_expr({txt})"), cj.clone()));
                return out;
            }
        };
        out.inc("lookups");
        if fp(&eg) != before {
            out.fail(Fail::new("lookup-modified-egraph", pr.kind, format!("lookup_rec_expr({txt}) changed the e-graph: {:?} -> {:?}", before, fp(&eg)), cj.clone()));
            return out;
        }
        let a = match guard(|| eg.add_expr(re.clone())) {
            Ok(x) => x,
            Err(p) => {
                out.fail(Fail::panic("panic-in-add", &p, &format!("add_expr({txt})"), cj.clone()));
                return out;
            }
        };
        out.inc("adds");
        let after = fp(&eg);
        let created = after.0 > before.0;
        if lk.is_some() == created {
            out.fail(Fail::new("lookup-add-disagree", format!("{}/{}", pr.kind, if created { "lookup-some-but-created" } else { "lookup-none-but-nothing-created" }), format!("{txt}: lookup_rec_expr = {lk:?} but add_expr created a class: {created}"), cj.clone()));
            return out;
        }
        if !created && (after.4 != before.4 || after.1 != before.1 || after.2 != before.2 || after.3 != before.3) {
            out.fail(Fail::new("add-of-known-term-changed-egraph", pr.kind, format!("{txt}: no class created but fingerprint {:?} -> {:?}", before, after), cj.clone()));
            return out;
        }
        if let Some(l) = &lk {
            if !eg.eq(l, &a) {
                out.fail(Fail::new("lookup-add-differ", pr.kind, format!("{txt}: lookup gives {l:?}, add gives {a:?}, not equal"), cj.clone()));
                return out;
            }
        }
        if let Some((i, nu)) = &pr.expect {
            out.inc("present_probes");
            if pr.kind != "literal" {
                nontrivial = true;
            }
            if created {
                out.fail(Fail::new("known-term-created-class", pr.kind, format!("{txt} is represented ({} of inserted term {}) but add_expr created a class", pr.kind, h.terms[*i].text(lang, &pname)), cj.clone()));
                return out;
            }
            let want = ids[i].apply_slotmap_partial(&slotmap_of(&full_map(&h.terms[*i], nu)));
            if !eg.eq(&a, &want) {
                out.fail(Fail::new("known-term-wrong-invocation", pr.kind, format!("{txt}: add returned {a:?}, expected an invocation equal to {want:?}"), cj.clone()));
                return out;
            }
            // renaming the term renames the result: slots(add(nu t)) = nu(slots(add t))
            let s0: BTreeSet<Slot> = eg.find_applied_id(&ids[i]).slots().iter().copied().collect();
            let fm = full_map(&h.terms[*i], nu);
            let s0n: BTreeSet<Slot> = s0.iter().map(|s| slotmap_of(&fm).get(*s).unwrap_or(*s)).collect();
            let s1: BTreeSet<Slot> = eg.find_applied_id(&a).slots().iter().copied().collect();
            if s0n != s1 {
                out.fail(Fail::new("slots-not-equivariant", pr.kind, format!("{txt}: slots {s1:?} but renamed original has {s0n:?}"), cj.clone()));
                return out;
            }
        }
        // the invocation exactly as returned (not canonicalised by the harness) already has the slots of its canonical form:
        // insertion and lookup return invocations over the term's free slots minus the redundant ones, nothing else
        for (what, x) in [("add_expr", Some(&a)), ("lookup_rec_expr", lk.as_ref())] {
            if let Some(x) = x {
                let raw = x.slots();
                let can = eg.find_applied_id(x).slots();
                if raw != can {
                    out.fail(Fail::new("returned-invocation-not-canonical", format!("{}/{what}", pr.kind), format!("{txt}: {what} returned {x:?} with slots {raw:?}, its canonical form has {can:?}"), cj.clone()));
                    return out;
                }
            }
        }
        // slots = free slots minus provably redundant ones (oracle), when the probe lies in the oracle universe
        let got = eg.find_applied_id(&a).slots();
        let fvp = pr.t.fv();
        match names_of_slots(&got, &fvp) {
            None => {
                out.fail(Fail::new("foreign-slot", pr.kind, format!("{txt}: returned slots {got:?} are not free slots of the term"), cj.clone()));
                return out;
            }
            Some(g) => {
                if cc.has(&pr.t.canon()) {
                    if let Some(sup) = cc.support(&pr.t) {
                        out.inc("slot_sets_vs_oracle");
                        if g != sup {
                            out.fail(Fail::new("slots-differ-from-support", pr.kind, format!("{txt}: slots {g:?}, oracle support {sup:?}"), cj.clone()));
                            return out;
                        }
                    }
                }
            }
        }
        // idempotence: adding again creates nothing and returns an equal invocation
        let b4 = fp(&eg);
        let a2 = eg.add_expr(re.clone());
        if fp(&eg) != b4 || !eg.eq(&a, &a2) {
            out.fail(Fail::new("re-add-not-idempotent", pr.kind, format!("{txt}: second add_expr changed the e-graph or returned {a2:?} != {a:?}"), cj.clone()));
            return out;
        }
        // single-node API agrees with the recursive one
        let node_lk = eg.lookup(&eg.enodes_applied(&eg.find_applied_id(&a)).into_iter().next().unwrap());
        if node_lk.is_none() {
            out.fail(Fail::new("enode-not-found", pr.kind, format!("{txt}: an e-node of its class cannot be looked up"), cj.clone()));
            return out;
        }
        *out.counters.entry(match pr.kind {
            "literal" => "probe_literal",
            "alpha-variant" => "probe_alpha",
            "renamed" => "probe_renamed",
            "equal-subterm" => "probe_equal_subterm",
            "subterm" => "probe_subterm",
            _ => "probe_random",
        }).or_insert(0) += 1;
        if created {
            out.inc("probe_created_class");
        }
    }
    // ---- single-node probes built over the handles as they were returned during the history (some of their classes were
    // merged away since): lookup(node) succeeds exactly when add(node) creates nothing, and returns an equal invocation
    {
        let hs: Vec<AppliedId> = ids.values().cloned().collect();
        for _ in 0..(2 * hs.len()).min(12) {
            let x = hs[rng.below(hs.len())].clone();
            let y = hs[rng.below(hs.len())].clone();
            let stale = !eg.is_alive(x.id) || !eg.is_alive(y.id);
            let n = match rng.below(5) {
                0 => LSym::U(x.clone()),
                1 => LSym::W(x.clone()),
                2 => LSym::App(x.clone(), y.clone()),
                3 => LSym::Pair(y.clone(), x.clone()),
                _ => match x.m.values().iter().next() {
                    Some(s) => LSym::Idx(*s, x.clone()),
                    None => LSym::U(x.clone()),
                },
            };
            let before = fp(&eg);
            let lk = match guard(|| eg.lookup(&n)) {
                Ok(v) => v,
                Err(p) => {
                    out.fail(Fail::panic("panic-in-lookup", &p, &format!("lookup({n:?})"), cj.clone()));
                    return out;
                }
            };
            if fp(&eg) != before {
                out.fail(Fail::new("lookup-modified-egraph", "node", format!("lookup({n:?}) changed the e-graph"), cj.clone()));
                return out;
            }
            let a = match guard(|| eg.add(n.clone())) {
                Ok(a) => a,
                Err(p) => {
                    out.fail(Fail::panic("panic-in-add", &p, &format!("add({n:?})"), cj.clone()));
                    return out;
                }
            };
            let created = fp(&eg).0 != before.0;
            out.inc("node_probes");
            if stale {
                out.inc("node_probes_over_merged_handles");
            }
            if lk.is_some() == created {
                out.fail(Fail::new("lookup-add-disagree", format!("node/{}", if created { "lookup-some-but-created" } else { "lookup-none-but-nothing-created" }), format!("lookup({n:?}) = {lk:?} but add created a class: {created} (handles of merged classes involved: {stale})"), cj.clone()));
                return out;
            }
            if let Some(l) = &lk {
                if !eg.eq(l, &a) {
                    out.fail(Fail::new("lookup-add-disagree", "node/different-invocation", format!("lookup({n:?}) = {l:?}, add returned {a:?}"), cj.clone()));
                    return out;
                }
            }
        }
    }
    let (n, bad) = structural_invariants(&eg);
    out.add("invariant_checks", n);
    if let Some((sig, d)) = bad {
        out.fail(Fail::new("inconsistent-after-probes", sig, d, cj.clone()));
    }
    if nontrivial {
        out.nontrivial = Some(h.hash(lang));
    }
    out.sample = Some(J::obj(vec![("mode", J::s("probes")), ("history", J::arr_s(&h.text(lang))), ("probes", J::A(probes.iter().take(6).map(|p| J::s(format!("{}: {}", p.kind, p.t.text(lang, &pname)))).collect()))]));
    out
}

/// extend `nu` to the identity on the other free names of t
fn full_map(t: &Tm, nu: &BTreeMap<Name, Name>) -> BTreeMap<Name, Name> {
    let mut m = BTreeMap::new();
    for n in t.fv() {
        m.insert(n, *nu.get(&n).unwrap_or(&n));
    }
    m
}

pub fn run(args: &Args, rep: &mut Rep) {
    drive(args, rep, |rng, _| run_case(rng));
}
