//! C05 — reported matches denote terms that are really in the e-graph (ematch_all, multi_ematch; matching is pure).
//! C04 — every represented instance of a rule's left side fires (planted instances, judged after firing).
use crate::core::*;
use crate::gen::*;
use crate::json::J;
use crate::langs::*;
use crate::props::c08::sym_rules;
use crate::rng::Rng;
use crate::sym::*;
use crate::tm::*;
use slotted_egraphs::*;
use std::collections::{BTreeMap, BTreeSet};

#[derive(Clone, Debug, PartialEq)]
pub enum PT {
    Var(String),
    Node { op: &'static str, slots: Vec<Name>, kids: Vec<(Vec<Name>, PT)> },
}

/// pattern slot names are spelled $s<k> (free) / $t<k> (bound) to keep them apart from instance names $p<k>
fn pslot(n: Name) -> String {
    if n >= 200 { format!("$t{}", n - 200) } else { format!("$s{}", n) }
}

impl PT {
    pub fn text(&self) -> String {
        match self {
            PT::Var(v) => format!("?{v}"),
            PT::Node { op, slots, kids } => {
                let sig = LSYM.sig(op);
                let mut parts = vec![op.to_string()];
                let (mut si, mut ki) = (0, 0);
                for f in sig {
                    match f {
                        Fld::S | Fld::X(_) => {
                            parts.push(pslot(slots[si]));
                            si += 1;
                        }
                        Fld::C(_) => {
                            for b in &kids[ki].0 {
                                parts.push(pslot(*b));
                            }
                            parts.push(kids[ki].1.text());
                            ki += 1;
                        }
                        Fld::P => {}
                    }
                }
                if parts.len() == 1 { parts.pop().unwrap() } else { format!("({})", parts.join(" ")) }
            }
        }
    }
    pub fn vars(&self, out: &mut Vec<String>) {
        match self {
            PT::Var(v) => out.push(v.clone()),
            PT::Node { kids, .. } => {
                for (_, k) in kids {
                    k.vars(out);
                }
            }
        }
    }
    fn free_slots(&self, bound: &mut Vec<Name>, out: &mut BTreeSet<Name>) {
        if let PT::Node { slots, kids, .. } = self {
            for s in slots {
                if !bound.contains(s) {
                    out.insert(*s);
                }
            }
            for (bs, k) in kids {
                let n = bound.len();
                bound.extend(bs.iter().copied());
                k.free_slots(bound, out);
                bound.truncate(n);
            }
        }
    }
    /// for every variable: the binders in scope at all of its occurrences (intersection)
    fn var_scopes(&self, bound: &mut Vec<Name>, out: &mut BTreeMap<String, BTreeSet<Name>>) {
        match self {
            PT::Var(v) => {
                let here: BTreeSet<Name> = bound.iter().copied().collect();
                out.entry(v.clone()).and_modify(|s| *s = s.intersection(&here).copied().collect()).or_insert(here);
            }
            PT::Node { kids, .. } => {
                for (bs, k) in kids {
                    let n = bound.len();
                    bound.extend(bs.iter().copied());
                    k.var_scopes(bound, out);
                    bound.truncate(n);
                }
            }
        }
    }
    /// instantiate: slots renamed by rho, variables replaced by sigma
    pub fn inst(&self, rho: &BTreeMap<Name, Name>, sigma: &BTreeMap<String, Tm>) -> Tm {
        match self {
            PT::Var(v) => sigma[v].clone(),
            PT::Node { op, slots, kids } => Tm { op, slots: slots.iter().map(|s| rho[s]).collect(), kids: kids.iter().map(|(bs, k)| (bs.iter().map(|b| rho[b]).collect(), k.inst(rho, sigma))).collect(), pay: None },
        }
    }
}

/// random linear/non-linear pattern; binders get unique names (>= 200), never used free
/// Pattern variable names: the naming scheme varies with the case (substitutions are hash maps keyed by the variable name, so
/// names of other lengths and spellings give other iteration orders and bucket layouts); injective in `k` for every scheme.
fn vname(prefix: char, k: usize) -> String {
    const SHORT_V: [&str; 9] = ["x", "y", "z", "w", "p", "q", "r", "s", "t"];
    const SHORT_M: [&str; 9] = ["a", "b", "c", "d", "e", "f", "g", "h", "i"];
    match crate::core::case_salt() % 4 {
        1 if k < 9 => (if prefix == 'v' { SHORT_V[k] } else { SHORT_M[k] }).to_string(),
        2 => format!("{prefix}_variable_number_{k}"),
        3 => format!("{}{prefix}", "k".repeat(k + 1)),
        _ => format!("{prefix}{k}"),
    }
}

fn gen_pattern(r: &mut Rng, depth: usize, nfree: usize, next_b: &mut Name, scope: &mut Vec<Name>, vars: &mut Vec<String>, ops: &[&'static str]) -> PT {
    if depth == 0 && r.chance(2, 3) || r.chance(1, 4) {
        // variable, sometimes a repeated one
        if !vars.is_empty() && r.chance(1, 3) {
            return PT::Var(r.pick(vars).clone());
        }
        let v = vname('v', vars.len());
        vars.push(v.clone());
        return PT::Var(v);
    }
    let leaf = depth == 0 || r.chance(1, 4);
    let cands: Vec<&'static OpSig> = ops.iter().filter_map(|o| LSYM.op(o)).filter(|o| o.fields.iter().any(|f| matches!(f, Fld::C(_))) != leaf).collect();
    let o = *r.pick(&cands);
    let mut slots = vec![];
    let mut kids = vec![];
    for f in o.fields {
        match f {
            Fld::S | Fld::X(_) => {
                if !scope.is_empty() && r.chance(1, 2) {
                    slots.push(*r.pick(scope));
                } else {
                    slots.push(r.below(nfree) as Name);
                }
            }
            Fld::C(k) => {
                let mut bs = vec![];
                for _ in 0..*k {
                    *next_b += 1;
                    bs.push(*next_b);
                }
                let n = scope.len();
                scope.extend(bs.iter().copied());
                let kid = gen_pattern(r, depth.saturating_sub(1), nfree, next_b, scope, vars, ops);
                scope.truncate(n);
                kids.push((bs, kid));
            }
            Fld::P => {}
        }
    }
    PT::Node { op: o.name, slots, kids }
}

const PAT_OPS: &[&str] = &["f", "g", "h", "k", "var", "c", "d", "u", "w", "app", "pair", "lam", "sum", "let", "idx", "bb", "ite", "sb", "bsl"];

/// bottom-up instantiation of a pattern with a substitution using only lookup (no insertion)
fn inst_by_lookup(eg: &EGraph<LSym>, pat: &Pattern<LSym>, subst: &Subst) -> Result<AppliedId, String> {
    match pat {
        Pattern::PVar(v) => subst.get(v).cloned().ok_or_else(|| format!("variable ?{v} is not bound")),
        Pattern::ENode(n, ch) => {
            let mut n = n.clone();
            let kids: Result<Vec<AppliedId>, String> = ch.iter().map(|c| inst_by_lookup(eg, c, subst)).collect();
            let kids = kids?;
            for (r, k) in n.applied_id_occurrences_mut().into_iter().zip(kids.into_iter()) {
                *r = k;
            }
            eg.lookup(&n).ok_or_else(|| format!("node {n:?} of the instantiated pattern is not represented"))
        }
        Pattern::Subst(..) => Err("substitution pattern on the left".into()),
    }
}

fn fingerprint(eg: &EGraph<LSym>, handles: &[AppliedId]) -> (usize, usize, usize, usize, usize, Vec<Id>, Vec<bool>, Vec<Vec<Slot>>) {
    let p = eg.progress();
    let mut eqs = vec![];
    for a in handles {
        for b in handles {
            eqs.push(eg.eq(a, b));
        }
    }
    let slots: Vec<Vec<Slot>> = eg.ids().iter().map(|i| { let mut v: Vec<Slot> = eg.slots(*i).iter().copied().collect(); v.sort(); v }).collect();
    (p.number_of_classes, p.number_of_live_classes, p.sum_of_slots, p.sum_of_symmetries, eg.total_number_of_nodes(), eg.ids(), eqs, slots)
}

fn build_egraph(rng: &mut Rng, with_rewrites: bool) -> Option<(EGraph<LSym>, Vec<AppliedId>, Vec<Tm>, Vec<String>)> {
    let ns = rng.range(2, 3);
    let cfg = GenCfg { lang: &LSYM, ops: PAT_OPS.to_vec(), ns, max_depth: 2, max_names: 4, shadow: false };
    let h = gen_history(rng, &cfg, 6, 4);
    let mut eg: EGraph<LSym> = EGraph::default();
    let mut ids: BTreeMap<usize, AppliedId> = BTreeMap::new();
    let mut log = h.text(&LSYM);
    let rules = sym_rules(rng);
    let r = guard(|| {
        for op in &h.ops {
            match op {
                HOp::Add(i) => {
                    ids.insert(*i, eg.add_expr(to_rec::<LSym>(&LSYM, &h.terms[*i])));
                }
                HOp::Union(a, b) => {
                    for t in [a, b] {
                        if !ids.contains_key(t) {
                            let id = eg.add_expr(to_rec::<LSym>(&LSYM, &h.terms[*t]));
                            ids.insert(*t, id);
                        }
                    }
                    let (x, y) = (ids[a].clone(), ids[b].clone());
                    eg.union(&x, &y);
                }
            }
        }
        if with_rewrites && !rules.is_empty() && eg.total_number_of_nodes() < 90 {
            let k = rng.range(1, rules.len().min(3));
            log.push(format!("rewrite {:?}", rules[..k].iter().map(|x| x.0.clone()).collect::<Vec<_>>()));
            let rs: Vec<Rewrite<LSym>> = rules[..k].iter().map(|(d, _)| {
                let (n, rest) = d.split_once(": ").unwrap();
                let (l, r) = rest.split_once(" => ").unwrap();
                Rewrite::new(n, l, r)
            }).collect();
            apply_rewrites(&mut eg, &rs);
        }
    });
    if r.is_err() {
        return None;
    }
    let terms: Vec<Tm> = ids.keys().map(|i| h.terms[*i].clone()).collect();
    Some((eg, ids.values().cloned().collect(), terms, log))
}

/// abstract a term into a pattern: some subterms become variables (equal subterms may share one)
fn abstract_term(r: &mut Rng, t: &Tm, vars: &mut Vec<(String, Tm)>, depth: usize) -> PT {
    if depth > 0 && r.chance(1, 3) || (t.kids.is_empty() && r.chance(1, 4)) {
        if let Some((v, _)) = vars.iter().find(|(_, s)| s.canon() == t.canon()) {
            if r.chance(2, 3) {
                return PT::Var(v.clone());
            }
        }
        let v = vname('v', vars.len());
        vars.push((v.clone(), t.clone()));
        return PT::Var(v);
    }
    // names: free p<k> -> pattern free slot k ; bound names -> 200+..
    let map = |n: Name| -> Name { if n >= BOUND { 200 + (n - BOUND) } else if n >= BINDER_BASE { 300 + (n - BINDER_BASE) } else { n } };
    PT::Node { op: t.op, slots: t.slots.iter().map(|s| map(*s)).collect(), kids: t.kids.iter().map(|(bs, k)| (bs.iter().map(|b| map(*b)).collect(), abstract_term(r, k, vars, depth + 1))).collect() }
}

fn identify_slot(p: &PT, a: Name, b: Name) -> PT {
    match p {
        PT::Var(v) => PT::Var(v.clone()),
        PT::Node { op, slots, kids } => PT::Node { op, slots: slots.iter().map(|s| if *s == a { b } else { *s }).collect(), kids: kids.iter().map(|(bs, k)| (bs.clone(), identify_slot(k, a, b))).collect() },
    }
}

pub fn c05_case(rng: &mut Rng) -> CaseOut {
    let mut out = CaseOut::default();
    let wr = rng.chance(1, 2);
    let Some((eg, handles, terms, log)) = build_egraph(rng, wr) else {
        out.inconclusive = Some("history panicked (reported by C02/C08)".into());
        return out;
    };
    let mut validated_multi_node = 0u64;
    for round in 0..6 {
        // ---- single patterns
        let pt = if round % 3 == 0 && !terms.is_empty() {
            let t = terms[rng.below(terms.len())].canon();
            abstract_term(rng, &t, &mut vec![], 0)
        } else if round % 3 == 1 && !terms.is_empty() {
            // an abstraction of an inserted term in which two different slots are identified: the term itself is no instance
            // any more (unless a symmetry or redundancy makes it one); a matcher that loses injectivity of the slot map reports it
            let t = terms[rng.below(terms.len())].canon();
            let p = abstract_term(rng, &t, &mut vec![], 0);
            let mut fs = BTreeSet::new();
            p.free_slots(&mut vec![], &mut fs);
            let fs: Vec<Name> = fs.into_iter().collect();
            if fs.len() >= 2 {
                let a = fs[rng.below(fs.len())];
                let mut b = fs[rng.below(fs.len())];
                if a == b {
                    b = fs[(fs.iter().position(|x| *x == a).unwrap() + 1) % fs.len()];
                }
                out.inc("patterns_with_identified_slots");
                identify_slot(&p, a, b)
            } else {
                p
            }
        } else {
            let d = rng.range(0, 2);
            gen_pattern(rng, d, 3, &mut 200, &mut vec![], &mut vec![], PAT_OPS)
        };
        let ptxt = pt.text();
        let cj = J::obj(vec![("history", J::arr_s(&log)), ("pattern", J::s(ptxt.clone()))]);
        let Ok(pat) = Pattern::<LSym>::parse(&ptxt) else {
            out.fail(Fail::new("harness", "pattern-unparseable", ptxt.clone(), cj));
            return out;
        };
        let before = fingerprint(&eg, &handles);
        let ms = match guard(|| ematch_all(&eg, &pat)) {
            Ok(m) => m,
            Err(p) => {
                out.fail(Fail::panic("panic-in-ematch", &p, &format!("ematch_all({ptxt})"), cj));
                return out;
            }
        };
        out.inc("patterns");
        if fingerprint(&eg, &handles) != before {
            out.fail(Fail::new("matching-changed-state", "ematch_all", format!("ematch_all({ptxt}) changed the observable state of the e-graph"), cj));
            return out;
        }
        let mut vs = vec![];
        pt.vars(&mut vs);
        let vs: BTreeSet<String> = vs.into_iter().collect();
        let nnodes = ptxt.matches('(').count() + 1;
        for s in ms.iter().take(300) {
            out.inc("matches_validated");
            for v in &vs {
                if !s.contains_key(v) {
                    out.fail(Fail::new("invalid-match", "variable-unbound", format!("a match of {ptxt} does not bind ?{v}: {s:?}"), cj));
                    return out;
                }
                let a = &s[v];
                if !a.m.is_bijection() || a.m.keys() != eg.slots(a.id) {
                    out.fail(Fail::new("invalid-match", "ill-formed-invocation", format!("a match of {ptxt} binds ?{v} to the ill-formed invocation {a:?}"), cj));
                    return out;
                }
            }
            match guard(|| inst_by_lookup(&eg, &pat, s)) {
                Ok(Ok(_)) => {}
                Ok(Err(e)) => {
                    out.fail(Fail::new("invalid-match", "instance-not-represented", format!("match {s:?} of {ptxt}: {e}"), cj));
                    return out;
                }
                Err(p) => {
                    out.fail(Fail::panic("panic-in-lookup", &p, &format!("instantiating {ptxt} with {s:?}"), cj));
                    return out;
                }
            }
            if nnodes >= 2 && !vs.is_empty() {
                validated_multi_node += 1;
            }
        }
        if !ms.is_empty() {
            out.inc("patterns_with_matches");
        }
    }
    // ---- multi-patterns: flatten a term into equations ?r == (op ?k..), or random equation lists
    for round in 0..3 {
        let mut eqs: Vec<(String, String, Vec<String>)> = vec![]; // (lhs var, node text with ?children, children)
        if round < 2 && !terms.is_empty() {
            let t = terms[rng.below(terms.len())].canon();
            let mut counter = 0;
            fn flat(t: &Tm, eqs: &mut Vec<(String, String, Vec<String>)>, counter: &mut usize, r: &mut Rng, depth: usize) -> String {
                let me = vname('m', *counter);
                *counter += 1;
                if depth >= 2 || (depth > 0 && r.chance(1, 3)) {
                    return me; // left as a free variable
                }
                let mut kids = vec![];
                for (_, k) in &t.kids {
                    kids.push(flat(k, eqs, counter, r, depth + 1));
                }
                let map = |n: Name| -> String { if n >= BOUND { format!("$t{}", n - BOUND) } else { format!("$s{}", n) } };
                let sig = LSYM.sig(t.op);
                let mut parts = vec![t.op.to_string()];
                let (mut si, mut ki) = (0, 0);
                for f in sig {
                    match f {
                        Fld::S | Fld::X(_) => {
                            parts.push(map(t.slots[si]));
                            si += 1;
                        }
                        Fld::C(_) => {
                            for b in &t.kids[ki].0 {
                                parts.push(map(*b));
                            }
                            parts.push(format!("?{}", kids[ki]));
                            ki += 1;
                        }
                        Fld::P => {}
                    }
                }
                // one name for two slots of one pattern node (nested binders re-using a name, a binder named like a slot argument, a
                // repeated slot argument): any parseable multi-pattern is a legal input, and whatever it matches must be validated
                let slot_pos: Vec<usize> = (1..parts.len()).filter(|i| parts[*i].starts_with('$')).collect();
                if slot_pos.len() >= 2 && r.chance(1, 6) {
                    let (a, b) = (slot_pos[r.below(slot_pos.len())], slot_pos[r.below(slot_pos.len())]);
                    if parts[a] != parts[b] {
                        parts[a] = parts[b].clone();
                    }
                }
                let txt = if parts.len() == 1 { parts.pop().unwrap() } else { format!("({})", parts.join(" ")) };
                eqs.push((me.clone(), txt, kids));
                me
            }
            flat(&t, &mut eqs, &mut counter, rng, 0);
            // equation order: bottom-up (as produced), top-down, or shuffled
            match rng.below(3) {
                0 => {}
                1 => eqs.reverse(),
                _ => rng.shuffle(&mut eqs),
            }
            // a forcing equation: an existing equation re-stated with one child variable replaced by another bound variable
            if rng.chance(1, 2) {
                let cands: Vec<usize> = (0..eqs.len()).filter(|i| !eqs[*i].2.is_empty()).collect();
                let vars: Vec<String> = eqs.iter().map(|e| e.0.clone()).collect();
                if !cands.is_empty() && vars.len() >= 2 {
                    let (v, txt, kids) = eqs[cands[rng.below(cands.len())]].clone();
                    let k = rng.below(kids.len());
                    let w = vars[rng.below(vars.len())].clone();
                    if w != kids[k] && w != v {
                        let txt2 = txt.replacen(&format!("?{}", kids[k]), &format!("?{w}"), 1);
                        let mut kids2 = kids.clone();
                        kids2[k] = w;
                        eqs.push((v, txt2, kids2));
                    }
                }
            }
        } else {
            let vars = ["a", "b", "c"];
            for _ in 0..rng.range(1, 3) {
                let o = *rng.pick(&["app", "u", "f", "lam", "pair", "g", "c"]);
                let v = *rng.pick(&vars);
                let (txt, kids): (String, Vec<String>) = match o {
                    "app" | "pair" => { let (x, y) = (*rng.pick(&vars), *rng.pick(&vars)); (format!("({o} ?{x} ?{y})"), vec![x.into(), y.into()]) }
                    "u" => { let x = *rng.pick(&vars); (format!("(u ?{x})"), vec![x.into()]) }
                    "lam" => { let x = *rng.pick(&vars); (format!("(lam $t0 ?{x})"), vec![x.into()]) }
                    "f" => (format!("(f $s{} $s{})", rng.below(2), rng.below(2)), vec![]),
                    "g" => (format!("(g $s{})", rng.below(2)), vec![]),
                    _ => ("c".to_string(), vec![]),
                };
                eqs.push((v.to_string(), txt, kids));
            }
        }
        if eqs.is_empty() {
            continue;
        }
        let mtxt = eqs.iter().map(|(v, n, _)| format!("?{v} == {n}")).collect::<Vec<_>>().join(", ");
        let cj = J::obj(vec![("history", J::arr_s(&log)), ("multipattern", J::s(mtxt.clone()))]);
        let mp = match MultiPattern::<LSym>::parse(&mtxt) {
            Ok(m) => m,
            Err(e) => {
                out.fail(Fail::new("harness", "multipattern-unparseable", format!("{mtxt}: {e:?}"), cj));
                return out;
            }
        };
        let before = fingerprint(&eg, &handles);
        let ms = match guard(|| multi_ematch(&mp, &eg)) {
            Ok(m) => m,
            Err(p) => {
                out.fail(Fail::panic("panic-in-multi-ematch", &p, &format!("multi_ematch({mtxt})"), cj));
                return out;
            }
        };
        out.inc("multipatterns");
        if eqs.iter().any(|(_, n, _)| { let toks: Vec<&str> = n.trim_matches(|c| c == '(' || c == ')').split(' ').filter(|t| t.starts_with('$')).collect(); toks.len() > toks.iter().collect::<BTreeSet<_>>().len() }) {
            out.inc("multipatterns_with_one_name_for_two_slots_of_a_node");
        }
        if fingerprint(&eg, &handles) != before {
            out.fail(Fail::new("matching-changed-state", "multi_ematch", format!("multi_ematch({mtxt}) changed the observable state"), cj));
            return out;
        }
        if !ms.is_empty() {
            out.inc("multipatterns_with_matches");
        }
        for s in ms.iter().take(200) {
            out.inc("multimatches_validated");
            for (v, ntxt, kids) in &eqs {
                for x in kids.iter().chain(std::iter::once(v)) {
                    if !s.contains_key(x) {
                        out.fail(Fail::new("invalid-match", "multi-variable-unbound", format!("a match of `{mtxt}` does not bind ?{x}: {s:?}"), cj));
                        return out;
                    }
                    // a bound class invocation must be well formed: its arguments are pairwise distinct slots, one per class slot
                    let a = &s[x];
                    if !a.m.is_bijection() || a.m.keys() != eg.slots(a.id) {
                        out.fail(Fail::new("invalid-match", "multi-ill-formed-invocation", format!("a match of `{mtxt}` binds ?{x} to the ill-formed invocation {a:?} (class slots {:?})", eg.slots(a.id)), cj));
                        return out;
                    }
                }
                let npat = Pattern::<LSym>::parse(ntxt).unwrap();
                match guard(|| inst_by_lookup(&eg, &npat, s)) {
                    Ok(Ok(a)) => {
                        if !eg.eq(&a, &s[v]) {
                            out.fail(Fail::new("invalid-match", "multi-equation-does-not-hold", format!("match {s:?} of `{mtxt}`: ?{v} = {:?} but {ntxt} instantiates to {a:?}", s[v]), cj));
                            return out;
                        }
                    }
                    Ok(Err(e)) => {
                        out.fail(Fail::new("invalid-match", "multi-instance-not-represented", format!("match {s:?} of `{mtxt}`: {e}"), cj));
                        return out;
                    }
                    Err(p) => {
                        out.fail(Fail::panic("panic-in-lookup", &p, &format!("instantiating {ntxt} with {s:?}"), cj));
                        return out;
                    }
                }
            }
            if eqs.len() >= 2 {
                validated_multi_node += 1;
            }
        }
    }
    if validated_multi_node > 0 {
        let mut hsh = 0;
        for l in &log {
            hsh = Rng::mix(hsh, crate::rng::fnv(l));
        }
        out.nontrivial = Some(hsh);
    }
    out.sample = Some(J::obj(vec![("mode", J::s("matching")), ("history", J::arr_s(&log))]));
    out
}

// ------------------------------------------------------------------------------------------- C04

/// re-executes the `add T` / `union A = B` lines of a setup log on a new e-graph
fn replay_log(log: &[String]) -> Option<EGraph<LSym>> {
    let mut eg: EGraph<LSym> = EGraph::default();
    guard(|| {
        for l in log {
            if let Some(t) = l.strip_prefix("add ") {
                eg.add_expr(RecExpr::parse(t).unwrap());
            } else if let Some(u) = l.strip_prefix("union ") {
                if let Some((a, b)) = u.split_once(" = ") {
                    let x = eg.add_expr(RecExpr::parse(a).unwrap());
                    let y = eg.add_expr(RecExpr::parse(b).unwrap());
                    eg.union(&x, &y);
                }
            }
        }
    })
    .ok()?;
    Some(eg)
}

fn no_redundancy(eg: &EGraph<LSym>) -> bool {
    for i in eg.ids() {
        let cs = eg.slots(i);
        for n in eg.enodes(i) {
            if n.slots() != cs {
                return false;
            }
        }
    }
    true
}

fn small_term(r: &mut Rng, names: &[Name]) -> Tm {
    let pick = |r: &mut Rng| -> Name { if names.is_empty() { 0 } else { names[r.below(names.len())] } };
    match r.below(9) {
        7 | 8 if names.len() >= 2 => {
            let a = pick(r);
            let mut b = pick(r);
            if a == b {
                b = names[(names.iter().position(|x| *x == a).unwrap() + 1) % names.len()];
            }
            Tm::leaf("f", vec![a, b])
        }
        0 => Tm::leaf("c", vec![]),
        1 => Tm::leaf("d", vec![]),
        2 if !names.is_empty() => Tm::leaf("g", vec![pick(r)]),
        3 if names.len() >= 2 => {
            let a = pick(r);
            let mut b = pick(r);
            if a == b {
                b = names[(names.iter().position(|x| *x == a).unwrap() + 1) % names.len()];
            }
            Tm::leaf("f", vec![a, b])
        }
        4 if !names.is_empty() => Tm::node("u", vec![], vec![(vec![], Tm::leaf("var", vec![pick(r)]))]),
        5 => Tm::node("w", vec![], vec![(vec![], Tm::leaf("e", vec![]))]),
        _ => Tm::leaf("e", vec![]),
    }
}

/// like PT::inst, but the k-th occurrence (k odd) of a variable bound to (f a b) is written (f b a)
fn inst_alternating(p: &PT, rho: &BTreeMap<Name, Name>, sigma: &BTreeMap<String, Tm>, seen: &mut BTreeMap<String, usize>) -> Tm {
    match p {
        PT::Var(v) => {
            let k = seen.entry(v.clone()).or_insert(0);
            *k += 1;
            let t = sigma[v].clone();
            if *k % 2 == 0 && t.op == "f" && t.slots.len() == 2 {
                Tm::leaf("f", vec![t.slots[1], t.slots[0]])
            } else {
                t
            }
        }
        PT::Node { op, slots, kids } => Tm { op, slots: slots.iter().map(|s| rho[s]).collect(), kids: kids.iter().map(|(bs, k)| (bs.iter().map(|b| rho[b]).collect(), inst_alternating(k, rho, sigma, seen))).collect(), pay: None },
    }
}

pub fn c04_case(rng: &mut Rng) -> CaseOut {
    let mut out = CaseOut::default();
    let lang = &LSYM;
    // ---- left pattern
    // companion rules applied in the same call (the statement speaks of rules, plural, applied once)
    let multi = rng.chance(1, 2);
    let mut vars = vec![];
    let mut nb = 200;
    let lhs = loop {
        vars.clear();
        nb = 200;
        let d = rng.range(1, 2);
        let p = gen_pattern(rng, d, 2, &mut nb, &mut vec![], &mut vars, &["f", "g", "k", "c", "u", "w", "app", "pair", "lam", "sum", "let", "idx"]);
        if matches!(p, PT::Node { .. }) {
            break p;
        }
    };
    let mut all_vars = vec![];
    lhs.vars(&mut all_vars);
    let repeated = all_vars.len() > all_vars.iter().collect::<BTreeSet<_>>().len();
    let mut scopes = BTreeMap::new();
    lhs.var_scopes(&mut vec![], &mut scopes);
    let mut lfree = BTreeSet::new();
    lhs.free_slots(&mut vec![], &mut lfree);
    // ---- right pattern: built from the variables that are not under a binder on the left, free slots of the left, and verbatim binder blocks of the left
    let top_vars: Vec<String> = scopes.iter().filter(|(_, s)| s.is_empty()).map(|(v, _)| v.clone()).collect();
    let mut blocks: Vec<PT> = vec![];
    fn binder_blocks(p: &PT, under: bool, out: &mut Vec<PT>) {
        if let PT::Node { kids, .. } = p {
            let has_binder = kids.iter().any(|(b, _)| !b.is_empty());
            if has_binder && !under {
                out.push(p.clone());
                return;
            }
            for (_, k) in kids {
                binder_blocks(k, under, out);
            }
        }
    }
    binder_blocks(&lhs, false, &mut blocks);
    let lf: Vec<Name> = lfree.iter().copied().collect();
    fn gen_rhs(r: &mut Rng, depth: usize, top_vars: &[String], blocks: &[PT], lf: &[Name], nb: &mut Name) -> PT {
        let roll = r.below(10);
        if roll < 3 && !top_vars.is_empty() {
            return PT::Var(r.pick(top_vars).clone());
        }
        if roll < 5 && !blocks.is_empty() {
            return r.pick(blocks).clone();
        }
        if depth == 0 || roll < 6 {
            return match r.below(3) {
                0 if !lf.is_empty() => PT::Node { op: "g", slots: vec![*r.pick(lf)], kids: vec![] },
                1 if lf.len() >= 2 => PT::Node { op: "k", slots: vec![lf[0], lf[1]], kids: vec![] },
                _ => PT::Node { op: "d", slots: vec![], kids: vec![] },
            };
        }
        match r.below(4) {
            0 => PT::Node { op: "u", slots: vec![], kids: vec![(vec![], gen_rhs(r, depth - 1, top_vars, blocks, lf, nb))] },
            1 => PT::Node { op: "app", slots: vec![], kids: vec![(vec![], gen_rhs(r, depth - 1, top_vars, blocks, lf, nb)), (vec![], gen_rhs(r, depth - 1, top_vars, blocks, lf, nb))] },
            2 => {
                *nb += 1;
                let b = *nb;
                PT::Node { op: "lam", slots: vec![], kids: vec![(vec![b], gen_rhs(r, depth - 1, top_vars, blocks, lf, nb))] }
            }
            _ => PT::Node { op: "pair", slots: vec![], kids: vec![(vec![], gen_rhs(r, depth - 1, top_vars, blocks, lf, nb)), (vec![], gen_rhs(r, depth - 1, top_vars, blocks, lf, nb))] },
        }
    }
    let d = rng.range(0, 2);
    let rhs = gen_rhs(rng, d, &top_vars, &blocks, &lf, &mut nb);
    // binder blocks copied twice would bind one name twice on the right: keep the scope restriction for the right side too
    {
        let mut seen = BTreeSet::new();
        fn binders(p: &PT, out: &mut Vec<Name>) {
            if let PT::Node { kids, .. } = p {
                for (bs, k) in kids {
                    out.extend(bs.iter().copied());
                    binders(k, out);
                }
            }
        }
        let mut bs = vec![];
        binders(&rhs, &mut bs);
        if bs.iter().any(|b| !seen.insert(*b)) {
            out.inc("skipped_rhs_rebinds");
            out.inconclusive = None;
            return out;
        }
    }
    // ---- instance: rho on all pattern slots, sigma on variables
    let mut all_pslots: BTreeSet<Name> = lfree.clone();
    for b in 201..=nb {
        all_pslots.insert(b);
    }
    let mut targets: Vec<Name> = (0..(all_pslots.len() as Name + 3)).collect();
    rng.shuffle(&mut targets);
    let rho: BTreeMap<Name, Name> = all_pslots.iter().copied().zip(targets.iter().copied()).collect();
    let extra: Vec<Name> = targets[all_pslots.len()..].to_vec();
    let mut sigma: BTreeMap<String, Tm> = BTreeMap::new();
    for (v, sc) in &scopes {
        let mut names: Vec<Name> = lfree.iter().map(|s| rho[s]).collect();
        names.extend(sc.iter().map(|s| rho[s]));
        names.extend(extra.iter().copied());
        let mut t = small_term(rng, &names);
        if multi && rng.chance(2, 3) {
            // a wrapper that a companion rule collapses in the same round: the class the variable is bound to may die before the planted match is applied
            t = Tm::node(if rng.chance(1, 2) { "w" } else { "u" }, vec![], vec![(vec![], t)]);
        }
        sigma.insert(v.clone(), t);
    }
    // occurrences of a repeated variable bound to an f-term are written in alternating orientation when f is symmetric,
    // so that the instance is present only up to the symmetry of the child class
    let sym_child = rng.chance(1, 2);
    let inst_l = if sym_child { inst_alternating(&lhs, &rho, &sigma, &mut BTreeMap::new()) } else { lhs.inst(&rho, &sigma) };
    let inst_r = rhs.inst(&rho, &sigma);
    let (ltxt, rtxt) = (lhs.text(), rhs.text());
    let mut log = vec![];
    let mut eg: EGraph<LSym> = EGraph::default();
    let mut via_union = false;
    let res = guard(|| -> Option<AppliedId> {
        // distractors
        for _ in 0..rng.below(3) {
            let d = small_term(rng, &[0, 1, 2]);
            log.push(format!("add {}", d.text(lang, &pname)));
            eg.add_expr(to_rec::<LSym>(lang, &d));
        }
        if multi {
            // usages of the wrapped terms / their contents, so that either side of a collapse may be the one that dies
            for t in sigma.values() {
                if (t.op == "w" || t.op == "u") && t.kids.len() == 1 {
                    let inner = t.kids[0].1.clone();
                    for _ in 0..rng.below(3) {
                        let which = if rng.chance(1, 2) { inner.clone() } else { t.clone() };
                        let user = Tm::node("pair", vec![], vec![(vec![], which.clone()), (vec![], Tm::leaf(if rng.chance(1, 2) { "c" } else { "d" }, vec![]))]);
                        if user.fv().iter().all(|n| *n < BOUND) {
                            log.push(format!("add {}", user.text(lang, &pname)));
                            eg.add_expr(to_rec::<LSym>(lang, &user));
                        }
                    }
                }
            }
        }
        // symmetric child classes: f(a,b) = f(b,a)
        if sym_child {
            log.push("union (f $p0 $p1) = (f $p1 $p0)".into());
            let a = eg.add_expr(RecExpr::parse("(f $p0 $p1)").unwrap());
            let b = eg.add_expr(RecExpr::parse("(f $p1 $p0)").unwrap());
            eg.union(&a, &b);
        }
        // balanced prior union: the instance is inserted with a subterm u replaced by u', and u = u' is asserted
        let mut subs = vec![];
        inst_l.subterms(&mut subs);
        let closed: Vec<Tm> = subs.iter().skip(1).filter(|s| s.kids.is_empty() && s.fv().iter().all(|n| *n < BOUND)).cloned().collect();
        if !closed.is_empty() && rng.chance(1, 2) {
            let u = closed[rng.below(closed.len())].clone();
            // u' has the same free slots as u
            let fv: Vec<Name> = u.fv().into_iter().collect();
            let u2 = match fv.len() {
                0 => Tm::node("w", vec![], vec![(vec![], Tm::leaf("d", vec![]))]),
                1 => Tm::node("w", vec![], vec![(vec![], Tm::leaf("g", vec![fv[0]]))]),
                2 => Tm::node("w", vec![], vec![(vec![], Tm::leaf("k", vec![fv[1], fv[0]]))]),
                _ => Tm::node("w", vec![], vec![(vec![], Tm::leaf("h", vec![fv[2], fv[0], fv[1]]))]),
            };
            if fv.len() <= 3 && u2.canon() != u.canon() {
                fn repl(t: &Tm, u: &Tm, u2: &Tm) -> Tm {
                    if t == u {
                        return u2.clone();
                    }
                    Tm { op: t.op, slots: t.slots.clone(), kids: t.kids.iter().map(|(b, k)| (b.clone(), repl(k, u, u2))).collect(), pay: t.pay.clone() }
                }
                let inst2 = repl(&inst_l, &u, &u2);
                log.push(format!("add {}", inst2.text(lang, &pname)));
                let id = eg.add_expr(to_rec::<LSym>(lang, &inst2));
                log.push(format!("union {} = {}", u.text(lang, &pname), u2.text(lang, &pname)));
                let a = eg.add_expr(to_rec::<LSym>(lang, &u));
                let b = eg.add_expr(to_rec::<LSym>(lang, &u2));
                eg.union(&a, &b);
                via_union = true;
                return Some(id);
            }
        }
        log.push(format!("add {}", inst_l.text(lang, &pname)));
        Some(eg.add_expr(to_rec::<LSym>(lang, &inst_l)))
    });
    let Ok(Some(root)) = res else {
        out.inconclusive = Some("setup panicked (reported by C02/C08)".into());
        return out;
    };
    log.push(format!("rule: {ltxt} => {rtxt}"));
    let cj = J::obj(vec![("log", J::arr_s(&log)), ("expected", J::s(inst_r.text(lang, &pname)))]);
    // ---- scope guard, evaluated on the real e-graph
    if !no_redundancy(&eg) {
        out.inc("skipped_redundancy_in_egraph");
        return out;
    }
    // the planted instance must be represented beforehand
    if lookup_rec_expr(&to_rec::<LSym>(lang, &inst_l), &eg).map(|a| !eg.eq(&a, &root)).unwrap_or(true) {
        out.inc("skipped_instance_not_represented");
        return out;
    }
    let mut rws = vec![Rewrite::<LSym>::new("planted", &ltxt, &rtxt)];
    if multi {
        // slot-preserving companions (no redundancy can arise from them): collapses and a re-tagging rule
        let comp = [("(w ?a)", "?a"), ("(u ?a)", "?a"), ("(app ?a ?b)", "(pair ?a ?b)"), ("(g $x)", "(w (g $x))")];
        let mut names = vec!["<planted>".to_string()];
        for (i, (l, r)) in comp.iter().enumerate() {
            if rng.chance(2, 3) {
                let rw = Rewrite::<LSym>::new(&format!("companion{i}"), l, r);
                let at = rng.below(rws.len() + 1);
                rws.insert(at, rw);
                names.insert(at, format!("{l} => {r}"));
            }
        }
        log.push(format!("rules of the call, in order: {}", names.join(" | ")));
    }
    // the same rule values applied to another e-graph first (built by the same operations, so that its class ids and slots
    // coincide with those of the judged one): a rule value must not carry anything over from one e-graph to the next
    if rng.chance(1, 3) {
        if let Some(mut decoy) = replay_log(&log) {
            let _ = guard(|| apply_rewrites(&mut decoy, &rws));
            out.inc("plantings_after_the_rule_values_were_used_on_another_egraph");
            log.push("(the rule values were applied to an identically built e-graph first)".into());
        }
    }
    if let Err(p) = guard(|| apply_rewrites(&mut eg, &rws)) {
        out.fail(Fail::panic("panic-in-apply", &p, "apply_rewrites", cj));
        return out;
    }
    out.inc("plantings_judged");
    if multi {
        out.inc("plantings_with_companion_rules");
    }
    if repeated {
        out.inc("plantings_with_repeated_variable");
    }
    if via_union {
        out.inc("plantings_present_only_through_union");
    }
    if sym_child {
        out.inc("plantings_with_symmetric_class");
    }
    match guard(|| lookup_rec_expr(&to_rec::<LSym>(lang, &inst_r), &eg)) {
        Ok(Some(b)) => {
            if !eg.eq(&b, &root) {
                out.fail(Fail::new("instance-did-not-fire", "rhs-not-equal", format!("rule {ltxt} => {rtxt}: after one application {} is represented but not equal to the planted instance {}", inst_r.text(lang, &pname), inst_l.text(lang, &pname)), cj));
                return out;
            }
        }
        Ok(None) => {
            out.fail(Fail::new("instance-did-not-fire", "rhs-not-represented", format!("rule {ltxt} => {rtxt}: after one application the right-hand instance {} of the planted instance {} is not represented", inst_r.text(lang, &pname), inst_l.text(lang, &pname)), cj));
            return out;
        }
        Err(p) => {
            out.fail(Fail::panic("panic-in-lookup", &p, "lookup of the right-hand instance", cj));
            return out;
        }
    }
    if via_union || repeated || sym_child {
        let mut hsh = 0;
        for l in &log {
            hsh = Rng::mix(hsh, crate::rng::fnv(l));
        }
        out.nontrivial = Some(hsh);
    }
    out.sample = Some(J::obj(vec![("mode", J::s("planting")), ("log", J::arr_s(&log)), ("expected", J::s(inst_r.text(lang, &pname)))]));
    out
}

/// C04, self-referential family: after `L(a,b) = CTX(a, L(b,a))` the class of L contains an e-node that mentions the class itself
/// with permuted arguments; the unrolled context `CTX(a, CTX(b, L(a,b)))` is represented only through that union, and a rule whose
/// left side is the unrolled context has to fire on it.
pub fn c04_selfref_case(rng: &mut Rng) -> CaseOut {
    let mut out = CaseOut::default();
    let mut names: Vec<usize> = (0..5).collect();
    rng.shuffle(&mut names);
    let (a, b) = (format!("$p{}", names[0]), format!("$p{}", names[1]));
    let leaf_op = *rng.pick(&["f", "k"]);
    let leaf = |x: &str, y: &str| format!("({leaf_op} {x} {y})");
    let ctx_kind = rng.below(4);
    // context around a hole, mentioning one slot (or, kind 3, a pattern variable in place of the slot-carrying leaf)
    let ctx = |slot: &str, hole: &str| -> String {
        match ctx_kind {
            0 | 3 => format!("(app (g {slot}) {hole})"),
            1 => format!("(pair {hole} (g {slot}))"),
            _ => format!("(idx {slot} {hole})"),
        }
    };
    let pctx = |slot: &str, var: &str, hole: &str| -> String {
        match ctx_kind {
            3 => format!("(app {var} {hole})"),
            _ => ctx(slot, hole),
        }
    };
    let depth = rng.range(2, 3);
    // pattern and the substitution that makes the unrolled term an instance
    let (lhs, v_inst) = if depth == 2 {
        (pctx("$s1", "?w1", &pctx("$s2", "?w2", "?v")), leaf(&a, &b))
    } else {
        (pctx("$s1", "?w1", &pctx("$s2", "?w2", &pctx("$s1", "?w1", "?v"))), leaf(&b, &a))
    };
    let inst_l = if depth == 2 { ctx(&a, &ctx(&b, &v_inst)) } else { ctx(&a, &ctx(&b, &ctx(&a, &v_inst))) };
    let (rhs, inst_r) = match rng.below(5) {
        0 => ("(u ?v)".to_string(), format!("(u {v_inst})")),
        1 => ("(pair ?v ?v)".to_string(), format!("(pair {v_inst} {v_inst})")),
        2 if ctx_kind != 3 => ("(w (k $s2 $s1))".to_string(), format!("(w (k {b} {a}))")),
        3 if ctx_kind == 3 => ("(pair ?w2 (u ?w1))".to_string(), format!("(pair (g {b}) (u (g {a})))")),
        _ => ("(app ?v d)".to_string(), format!("(app {v_inst} d)")),
    };
    let mut log = vec![];
    let mut eg: EGraph<LSym> = EGraph::default();
    let res = guard(|| -> AppliedId {
        for _ in 0..rng.below(3) {
            let d = small_term(rng, &[0, 1, 2]);
            log.push(format!("add {}", d.text(&LSYM, &pname)));
            eg.add_expr(to_rec::<LSym>(&LSYM, &d));
        }
        let l = leaf(&a, &b);
        let r = ctx(&a, &leaf(&b, &a));
        log.push(format!("union {l} = {r}"));
        let x = eg.add_expr(RecExpr::parse(&l).unwrap());
        let y = eg.add_expr(RecExpr::parse(&r).unwrap());
        eg.union(&x, &y);
        if rng.chance(1, 3) {
            // the unrolled term inserted literally as well
            log.push(format!("add {inst_l}"));
            eg.add_expr(RecExpr::parse(&inst_l).unwrap());
        }
        x
    });
    let Ok(root) = res else {
        out.inconclusive = Some("setup panicked (reported by C02/C08)".into());
        return out;
    };
    log.push(format!("rule: {lhs} => {rhs}"));
    let cj = J::obj(vec![("log", J::arr_s(&log)), ("instance", J::s(inst_l.clone())), ("expected", J::s(inst_r.clone()))]);
    if !no_redundancy(&eg) {
        out.inc("skipped_redundancy_in_egraph");
        return out;
    }
    let il: RecExpr<LSym> = RecExpr::parse(&inst_l).unwrap();
    if lookup_rec_expr(&il, &eg).map(|x| !eg.eq(&x, &root)).unwrap_or(true) {
        out.inc("skipped_instance_not_represented");
        return out;
    }
    let rw = Rewrite::<LSym>::new("planted", &lhs, &rhs);
    if let Err(p) = guard(|| apply_rewrites(&mut eg, &[rw])) {
        out.fail(Fail::panic("panic-in-apply", &p, "apply_rewrites", cj));
        return out;
    }
    out.inc("plantings_judged");
    out.inc("plantings_through_self_reference");
    let ir: RecExpr<LSym> = RecExpr::parse(&inst_r).unwrap();
    match guard(|| lookup_rec_expr(&ir, &eg)) {
        Ok(Some(x)) => {
            if !eg.eq(&x, &root) {
                out.fail(Fail::new("instance-did-not-fire", "rhs-not-equal", format!("rule {lhs} => {rhs}: after one application {inst_r} is represented but not equal to the instance {inst_l} (present through the self-referential union)"), cj));
                return out;
            }
        }
        Ok(None) => {
            out.fail(Fail::new("instance-did-not-fire", "rhs-not-represented", format!("rule {lhs} => {rhs}: after one application the right-hand instance {inst_r} of the instance {inst_l} (present through the self-referential union) is not represented"), cj));
            return out;
        }
        Err(p) => {
            out.fail(Fail::panic("panic-in-lookup", &p, "lookup of the right-hand instance", cj));
            return out;
        }
    }
    let mut hsh = 0;
    for l in &log {
        hsh = Rng::mix(hsh, crate::rng::fnv(l));
    }
    out.nontrivial = Some(hsh);
    out.sample = Some(J::obj(vec![("mode", J::s("self-referential planting")), ("log", J::arr_s(&log)), ("expected", J::s(inst_r))]));
    out
}

/// C04, several symmetric children: a node with two or three children whose classes carry argument symmetries over shared slots
/// (optionally below a slot field that pins one of them). The instance is inserted in one arrangement; the left pattern writes every
/// child in another arrangement taken from that child's symmetry group, so the pattern's instance is represented only through the
/// earlier unions - one of (|G1| * |G2| * |G3|) ways of writing it, all of which have to fire.
pub fn c04_multisym_case(rng: &mut Rng) -> CaseOut {
    let mut out = CaseOut::default();
    let mut names: Vec<usize> = (0..5).collect();
    rng.shuffle(&mut names);
    let nslots = rng.range(2, 3);
    let sl: Vec<String> = (0..nslots).map(|i| format!("$p{}", names[i])).collect();
    // leaf operators with their asserted position symmetries (generators)
    let gens_of = |op: &str, rng: &mut Rng| -> Vec<Vec<usize>> {
        match op {
            "f" | "k" => vec![vec![1, 0]],
            _ => match rng.below(4) {
                0 => vec![vec![1, 0, 2]],
                1 => vec![vec![1, 2, 0]],
                2 => vec![vec![0, 2, 1]],
                _ => vec![vec![1, 0, 2], vec![1, 2, 0]],
            },
        }
    };
    let nkids = rng.range(2, 3);
    let mut kid_ops: Vec<&'static str> = vec![];
    for _ in 0..nkids {
        kid_ops.push(if nslots == 3 && rng.chance(1, 2) { "h" } else { *rng.pick(&["f", "k"]) });
    }
    let mut op_gens: BTreeMap<&'static str, Vec<Vec<usize>>> = BTreeMap::new();
    for o in &kid_ops {
        if !op_gens.contains_key(o) {
            let g = gens_of(o, rng);
            op_gens.insert(o, g);
        }
    }
    // arrangement of instance slots per child (distinct slots), and an equivalent arrangement for the pattern
    let arity = |o: &str| if o == "h" { 3 } else { 2 };
    let orbit = |start: &Vec<usize>, gens: &Vec<Vec<usize>>| -> Vec<Vec<usize>> {
        let mut seen = vec![start.clone()];
        let mut i = 0;
        while i < seen.len() {
            for g in gens {
                let nx: Vec<usize> = (0..g.len()).map(|p| seen[i][g[p]]).collect();
                if !seen.contains(&nx) {
                    seen.push(nx);
                }
            }
            i += 1;
        }
        seen
    };
    let mut inst_args: Vec<Vec<usize>> = vec![];
    let mut pat_args: Vec<Vec<usize>> = vec![];
    let mut ways = 1usize;
    for o in &kid_ops {
        let mut idx: Vec<usize> = (0..nslots).collect();
        rng.shuffle(&mut idx);
        idx.truncate(arity(o));
        let orb = orbit(&idx, &op_gens[o]);
        ways *= orb.len();
        pat_args.push(orb[rng.below(orb.len())].clone());
        inst_args.push(idx);
    }
    let leaf_txt = |o: &str, args: &Vec<usize>, nm: &dyn Fn(usize) -> String| format!("({o} {})", args.iter().map(|a| nm(*a)).collect::<Vec<_>>().join(" "));
    let inst_nm = |i: usize| sl[i].clone();
    let pat_nm = |i: usize| format!("$s{i}");
    let parent_kind = rng.below(4);
    let pin = rng.below(nslots);
    let parent = |kids: &Vec<String>, nm: &dyn Fn(usize) -> String| -> String {
        let core = if kids.len() == 3 { format!("(ite {} {} {})", kids[0], kids[1], kids[2]) } else if parent_kind % 2 == 0 { format!("(app {} {})", kids[0], kids[1]) } else { format!("(pair {} {})", kids[0], kids[1]) };
        if parent_kind >= 2 { format!("(app (g {}) {core})", nm(pin)) } else { core }
    };
    let inst_kids: Vec<String> = kid_ops.iter().zip(inst_args.iter()).map(|(o, a)| leaf_txt(o, a, &inst_nm)).collect();
    let pat_kids: Vec<String> = kid_ops.iter().zip(pat_args.iter()).map(|(o, a)| leaf_txt(o, a, &pat_nm)).collect();
    let inst_l = parent(&inst_kids, &inst_nm);
    let lhs = parent(&pat_kids, &pat_nm);
    let lhs_inst = parent(&kid_ops.iter().zip(pat_args.iter()).map(|(o, a)| leaf_txt(o, a, &inst_nm)).collect(), &inst_nm);
    // right side: lists every slot the left side mentions, in a random order
    let mut used: Vec<usize> = pat_args.iter().flatten().copied().collect();
    if parent_kind >= 2 {
        used.push(pin);
    }
    used.sort();
    used.dedup();
    rng.shuffle(&mut used);
    let rhs_of = |nm: &dyn Fn(usize) -> String| -> String {
        let mut t = format!("(g {})", nm(used[0]));
        for u in &used[1..] {
            t = format!("(pair (g {}) {t})", nm(*u));
        }
        format!("(w {t})")
    };
    let (rhs, inst_r) = (rhs_of(&pat_nm), rhs_of(&inst_nm));
    let mut log = vec![];
    let mut eg: EGraph<LSym> = EGraph::default();
    let sym_first = rng.chance(1, 2);
    let res = guard(|| -> AppliedId {
        for _ in 0..rng.below(3) {
            let d = small_term(rng, &[0, 1, 2]);
            log.push(format!("add {}", d.text(&LSYM, &pname)));
            eg.add_expr(to_rec::<LSym>(&LSYM, &d));
        }
        let mut root = None;
        for phase in 0..2 {
            if (phase == 0) == sym_first {
                for (o, gens) in &op_gens {
                    for g in gens {
                        let id: Vec<usize> = (0..g.len()).collect();
                        let a = leaf_txt(o, &id, &|i| format!("$p{i}"));
                        let b = leaf_txt(o, g, &|i| format!("$p{i}"));
                        log.push(format!("union {a} = {b}"));
                        let x = eg.add_expr(RecExpr::parse(&a).unwrap());
                        let y = eg.add_expr(RecExpr::parse(&b).unwrap());
                        eg.union(&x, &y);
                    }
                }
            } else {
                log.push(format!("add {inst_l}"));
                root = Some(eg.add_expr(RecExpr::parse(&inst_l).unwrap()));
            }
        }
        root.unwrap()
    });
    let Ok(root) = res else {
        out.inconclusive = Some("setup panicked (reported by C02/C08)".into());
        return out;
    };
    log.push(format!("rule: {lhs} => {rhs}"));
    let cj = J::obj(vec![("log", J::arr_s(&log)), ("instance", J::s(lhs_inst.clone())), ("expected", J::s(inst_r.clone()))]);
    if !no_redundancy(&eg) {
        out.inc("skipped_redundancy_in_egraph");
        return out;
    }
    let il: RecExpr<LSym> = RecExpr::parse(&lhs_inst).unwrap();
    if lookup_rec_expr(&il, &eg).map(|x| !eg.eq(&x, &root)).unwrap_or(true) {
        out.inc("skipped_instance_not_represented");
        return out;
    }
    let rw = Rewrite::<LSym>::new("planted", &lhs, &rhs);
    if let Err(p) = guard(|| apply_rewrites(&mut eg, &[rw])) {
        out.fail(Fail::panic("panic-in-apply", &p, "apply_rewrites", cj));
        return out;
    }
    out.inc("plantings_judged");
    out.inc("plantings_with_several_symmetric_children");
    out.inc("plantings_with_symmetric_class");
    if ways >= 8 {
        out.inc("plantings_with_eight_or_more_arrangements");
    }
    let ir: RecExpr<LSym> = RecExpr::parse(&inst_r).unwrap();
    match guard(|| lookup_rec_expr(&ir, &eg)) {
        Ok(Some(x)) => {
            if !eg.eq(&x, &root) {
                out.fail(Fail::new("instance-did-not-fire", "rhs-not-equal", format!("rule {lhs} => {rhs}: after one application {inst_r} is represented but not equal to the instance {lhs_inst} (equal to the inserted {inst_l} through the symmetries of its children)"), cj));
                return out;
            }
        }
        Ok(None) => {
            out.fail(Fail::new("instance-did-not-fire", "rhs-not-represented", format!("rule {lhs} => {rhs}: after one application the right-hand instance {inst_r} of the instance {lhs_inst} (equal to the inserted {inst_l} through the symmetries of its children) is not represented"), cj));
            return out;
        }
        Err(p) => {
            out.fail(Fail::panic("panic-in-lookup", &p, "lookup of the right-hand instance", cj));
            return out;
        }
    }
    let mut hsh = 0;
    for l in &log {
        hsh = Rng::mix(hsh, crate::rng::fnv(l));
    }
    out.nontrivial = Some(hsh);
    out.sample = Some(J::obj(vec![("mode", J::s("several symmetric children")), ("log", J::arr_s(&log)), ("expected", J::s(inst_r))]));
    out
}

pub fn run(args: &Args, rep: &mut Rep) {
    if args.prop == "C04" {
        drive(args, rep, |rng, _| if rng.chance(1, 8) { c04_selfref_case(rng) } else if rng.chance(1, 7) { c04_multisym_case(rng) } else { c04_case(rng) });
    } else {
        drive(args, rep, |rng, _| c05_case(rng));
    }
}
