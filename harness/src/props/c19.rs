//! C19 — slot maps behave as finite maps independent of construction order.
//! Oracle: BTreeMap<Slot,Slot> reference, compared after every mutator step and for every binary operation.
use crate::core::*;
use crate::json::J;
use crate::rng::Rng;
use slotted_egraphs::*;
use std::collections::hash_map::DefaultHasher;
use std::collections::{BTreeMap, BTreeSet};
use std::hash::{Hash, Hasher};

type Ref = BTreeMap<Slot, Slot>;

fn h<T: Hash>(t: &T) -> u64 {
    let mut s = DefaultHasher::new();
    t.hash(&mut s);
    s.finish()
}

fn build_sorted(r: &Ref) -> SlotMap {
    let v: Vec<(Slot, Slot)> = r.iter().map(|(a, b)| (*a, *b)).collect();
    SlotMap::from_pairs(&v)
}
fn build_rev(r: &Ref) -> SlotMap {
    let mut m = SlotMap::new();
    for (a, b) in r.iter().rev() {
        m.insert(*a, *b);
    }
    m
}
fn build_iter(r: &Ref, rot: usize) -> SlotMap {
    let mut v: Vec<(Slot, Slot)> = r.iter().map(|(a, b)| (*a, *b)).collect();
    if !v.is_empty() {
        let k = rot % v.len();
        v.rotate_left(k);
    }
    v.into_iter().collect()
}

/// the `From<[(Slot, Slot); N]>` constructor (reverse key order), for maps of up to four pairs
fn build_array(r: &Ref) -> Option<SlotMap> {
    let v: Vec<(Slot, Slot)> = r.iter().rev().map(|(a, b)| (*a, *b)).collect();
    Some(match v.len() {
        0 => SlotMap::from([]),
        1 => SlotMap::from([v[0]]),
        2 => SlotMap::from([v[0], v[1]]),
        3 => SlotMap::from([v[1], v[0], v[2]]),
        4 => SlotMap::from([v[2], v[0], v[3], v[1]]),
        _ => return None,
    })
}

fn is_inj(r: &Ref) -> bool {
    let s: BTreeSet<Slot> = r.values().copied().collect();
    s.len() == r.len()
}

/// Full observation of `m` against reference `r`. Returns the name of the first disagreeing observable.
fn observe(m: &SlotMap, r: &Ref, universe: &[Slot]) -> Result<u64, String> {
    let mut n = 0u64;
    macro_rules! chk {
        ($name:expr, $c:expr) => {
            n += 1;
            if !($c) {
                return Err($name.to_string());
            }
        };
    }
    chk!("len", m.len() == r.len());
    chk!("is_empty", m.is_empty() == r.is_empty());
    for &s in universe {
        chk!("get", m.get(s) == r.get(&s).copied());
        chk!("contains_key", m.contains_key(s) == r.contains_key(&s));
        if let Some(v) = r.get(&s) {
            let got = guard(|| m[s]);
            chk!("index", matches!(got, Ok(x) if x == *v));
        }
    }
    let pairs: Vec<(Slot, Slot)> = r.iter().map(|(a, b)| (*a, *b)).collect();
    chk!("iter", m.iter().collect::<Vec<_>>() == pairs);
    chk!("into_iter", m.clone().into_iter().collect::<Vec<_>>() == pairs);
    chk!("keys_vec", m.keys_vec() == pairs.iter().map(|p| p.0).collect::<Vec<_>>());
    chk!("values_vec", m.values_vec() == pairs.iter().map(|p| p.1).collect::<Vec<_>>());
    chk!("values_immut", m.values_immut().copied().collect::<Vec<_>>() == pairs.iter().map(|p| p.1).collect::<Vec<_>>());
    let ks: BTreeSet<Slot> = m.keys().iter().copied().collect();
    chk!("keys", ks == r.keys().copied().collect::<BTreeSet<_>>() && m.keys().len() == r.len());
    let vs: BTreeSet<Slot> = m.values().iter().copied().collect();
    chk!("values", vs == r.values().copied().collect::<BTreeSet<_>>());
    let inj = is_inj(r);
    chk!("is_bijection", m.is_bijection() == inj);
    let perm = inj && r.keys().copied().collect::<BTreeSet<_>>() == r.values().copied().collect::<BTreeSet<_>>();
    chk!("is_perm", m.is_perm() == perm);
    // construction-order independence of Eq / Hash / Ord
    let mut builds = vec![("sorted", build_sorted(r)), ("rev", build_rev(r)), ("iter", build_iter(r, 1)), ("iter2", build_iter(r, 2))];
    if let Some(a) = build_array(r) {
        builds.push(("array", a));
    }
    // from_pairs over pair lists in other orders (rotations, adjacent swaps, reversed)
    {
        let sorted: Vec<(Slot, Slot)> = r.iter().map(|(a, b)| (*a, *b)).collect();
        if sorted.len() >= 2 {
            let mut rev = sorted.clone();
            rev.reverse();
            builds.push(("from_pairs-reversed", SlotMap::from_pairs(&rev)));
            let mut rot = sorted.clone();
            rot.rotate_left(1);
            builds.push(("from_pairs-rotated", SlotMap::from_pairs(&rot)));
            let mut sw = sorted.clone();
            let n = sw.len();
            sw.swap(n - 2, n - 1);
            builds.push(("from_pairs-swapped", SlotMap::from_pairs(&sw)));
            if sorted.len() >= 3 {
                let mut mid = sorted.clone();
                mid.swap(1, 2);
                builds.push(("from_pairs-swapped-1-2", SlotMap::from_pairs(&mid)));
            }
        }
    }
    for (nm, o) in builds {
        chk!(format!("eq-vs-{nm}"), *m == o && o == *m);
        chk!(format!("hash-vs-{nm}"), h(m) == h(&o));
        chk!(format!("ord-vs-{nm}"), m.cmp(&o) == std::cmp::Ordering::Equal && m.partial_cmp(&o) == Some(std::cmp::Ordering::Equal));
    }
    if inj {
        let inv = m.inverse();
        let rinv: Ref = r.iter().map(|(a, b)| (*b, *a)).collect();
        chk!("inverse", inv.iter().collect::<Vec<_>>() == rinv.iter().map(|(a, b)| (*a, *b)).collect::<Vec<_>>());
        chk!("inverse-inverse", inv.inverse() == *m);
        // b ∘ b⁻¹ = identity(keys b)
        let id = SlotMap::identity(&m.keys());
        chk!("compose-inverse", m.compose_partial(&inv) == id);
        if !CHECKS_ON || true {
            chk!("compose-inverse-total", m.compose(&inv) == id);
        }
    }
    // values_mut sees the values in key order and writes through
    {
        let mut c = m.clone();
        let seen: Vec<Slot> = c.values_mut().map(|x| *x).collect();
        chk!("values_mut", seen == pairs.iter().map(|p| p.1).collect::<Vec<_>>());
        if let Some((k0, v0)) = pairs.first().copied() {
            for x in c.values_mut() {
                *x = v0;
            }
            chk!("values_mut-write", c.get(k0) == Some(v0) && c.len() == r.len() && c.values().len() == 1);
        }
    }
    // bijection_from_fresh_to: keys are brand-new, pairwise distinct slots; values are exactly the given set
    {
        let set = m.values();
        let b = SlotMap::bijection_from_fresh_to(&set);
        chk!("bijection_from_fresh_to", b.values() == set && b.len() == set.len() && b.is_bijection() && b.keys().iter().all(|k| !universe.contains(k) && k.to_string().starts_with("$f")));
    }
    // identity
    let id = SlotMap::identity(&m.keys());
    chk!("identity", id.iter().collect::<Vec<_>>() == r.keys().map(|k| (*k, *k)).collect::<Vec<_>>());
    Ok(n)
}

const CHECKS_ON: bool = cfg!(feature = "checks");

fn ref_compose_partial(a: &Ref, b: &Ref) -> Ref {
    let mut o = Ref::new();
    for (x, y) in a {
        if let Some(z) = b.get(y) {
            o.insert(*x, *z);
        }
    }
    o
}

fn same(m: &SlotMap, r: &Ref) -> bool {
    m.iter().collect::<Vec<_>>() == r.iter().map(|(a, b)| (*a, *b)).collect::<Vec<_>>() && *m == build_sorted(r) && h(m) == h(&build_sorted(r))
}

/// binary operations of `a`,`b` against the reference
fn binary(a: &SlotMap, ra: &Ref, b: &SlotMap, rb: &Ref, seen_fresh: &mut BTreeSet<Slot>, universe: &[Slot]) -> Result<u64, String> {
    let mut n = 0u64;
    macro_rules! chk {
        ($name:expr, $c:expr) => {
            n += 1;
            if !($c) {
                return Err($name.to_string());
            }
        };
    }
    let rc = ref_compose_partial(ra, rb);
    chk!("compose_partial", same(&a.compose_partial(b), &rc));
    // total composition where defined (values(a) == keys(b))
    let va: BTreeSet<Slot> = ra.values().copied().collect();
    let kb: BTreeSet<Slot> = rb.keys().copied().collect();
    if va == kb {
        chk!("compose", same(&a.compose(b), &rc));
    }
    // compose_fresh: keys preserved; mapped entries agree; the rest are brand-new, pairwise distinct
    let cf = a.compose_fresh(b);
    chk!("compose_fresh-keys", cf.keys_vec() == a.keys_vec());
    let mut fresh_here = BTreeSet::new();
    for (x, y) in ra {
        let got = cf.get(*x).unwrap();
        match rb.get(y) {
            Some(z) => {
                chk!("compose_fresh-mapped", got == *z);
            }
            None => {
                chk!("compose_fresh-new", !universe.contains(&got) && !seen_fresh.contains(&got) && fresh_here.insert(got));
            }
        }
    }
    seen_fresh.extend(fresh_here);
    // try_union / union
    let compatible = ra.iter().all(|(k, v)| rb.get(k).map(|w| w == v).unwrap_or(true));
    let tu = a.try_union(b);
    chk!("try_union-some", tu.is_some() == compatible);
    if compatible {
        let mut ru = ra.clone();
        for (k, v) in rb {
            ru.insert(*k, *v);
        }
        chk!("try_union", same(&tu.unwrap(), &ru));
        chk!("union", same(&a.union(b), &ru));
    }
    // order consistency
    let c1 = a.cmp(b);
    let c2 = b.cmp(a);
    chk!("ord-antisym", c1 == c2.reverse());
    chk!("ord-eq", (c1 == std::cmp::Ordering::Equal) == (ra == rb) && (a == b) == (ra == rb));
    chk!("ord-order-indep", build_rev(ra).cmp(&build_iter(rb, 1)) == c1);
    // one ordering, whichever way it is asked for: Ord, PartialOrd and the comparison operators agree (the contract of std::cmp::Ord)
    chk!("ord-partial-ord-agree", a.partial_cmp(b) == Some(c1));
    chk!("ord-operators-agree", (a < b) == (c1 == std::cmp::Ordering::Less) && (a > b) == (c1 == std::cmp::Ordering::Greater) && (a <= b) == (c1 != std::cmp::Ordering::Greater));
    chk!("ord-min-max-agree", (std::cmp::min(a, b) == a) == (c1 != std::cmp::Ordering::Greater) && (std::cmp::max(a, b) == b || a == b) == (c1 != std::cmp::Ordering::Greater));
    if ra == rb {
        chk!("hash-eq", h(a) == h(b));
    }
    Ok(n)
}

fn slots4() -> Vec<Slot> {
    // mixed kinds so that key order is not creation order
    let f = Slot::fresh();
    vec![Slot::named("zz"), Slot::numeric(7), f, Slot::numeric(2)]
}

fn all_maps(u: &[Slot]) -> Vec<Ref> {
    let mut out = vec![Ref::new()];
    for &k in u {
        let mut nx = vec![];
        for m in &out {
            nx.push(m.clone());
            for &v in u {
                let mut m2 = m.clone();
                m2.insert(k, v);
                nx.push(m2);
            }
        }
        out = nx;
    }
    out
}

fn show(r: &Ref) -> String {
    format!("{:?}", r.iter().collect::<Vec<_>>())
}

#[derive(Clone, Copy, Debug)]
enum Step {
    Ins(usize, usize),
    Rem(usize),
}

fn steps(u: usize) -> Vec<Step> {
    let mut v = vec![];
    for k in 0..u {
        for w in 0..u {
            v.push(Step::Ins(k, w));
        }
    }
    for k in 0..u {
        v.push(Step::Rem(k));
    }
    v
}

struct Dfs<'a> {
    u: &'a [Slot],
    all: Vec<Step>,
    maxlen: usize,
    out: &'a mut CaseOut,
    path: Vec<Step>,
    nontrivial: u64,
}

impl<'a> Dfs<'a> {
    fn go(&mut self, m: &SlotMap, r: &Ref, nt: bool) {
        if self.path.len() >= self.maxlen || !self.out.fails.is_empty() {
            return;
        }
        for st in self.all.clone() {
            let mut m2 = m.clone();
            let mut r2 = r.clone();
            let mut nt2 = nt;
            match st {
                Step::Ins(k, v) => {
                    // non-trivial: overwrite, or insertion below the current maximal key (not an append)
                    if r2.contains_key(&self.u[k]) || r2.keys().next_back().map(|mx| self.u[k] < *mx).unwrap_or(false) {
                        nt2 = true;
                    }
                    m2.insert(self.u[k], self.u[v]);
                    r2.insert(self.u[k], self.u[v]);
                }
                Step::Rem(k) => {
                    if r2.contains_key(&self.u[k]) {
                        nt2 = true;
                    }
                    m2.remove(self.u[k]);
                    r2.remove(&self.u[k]);
                }
            }
            self.path.push(st);
            self.out.inc("sequences");
            if nt2 {
                self.nontrivial += 1;
            }
            match observe(&m2, &r2, self.u) {
                Ok(n) => self.out.add("observations", n),
                Err(what) => {
                    let case = J::obj(vec![("mode", J::s("exhaustive-seq")), ("steps", J::s(format!("{:?}", self.path))), ("ref", J::s(show(&r2)))]);
                    self.out.fail(Fail::new("slotmap-mismatch", what.clone(), format!("after {:?}: observable `{what}` disagrees with reference {}", self.path, show(&r2)), case));
                    self.path.pop();
                    return;
                }
            }
            self.go(&m2, &r2, nt2);
            self.path.pop();
        }
    }
}

pub fn run(args: &Args, rep: &mut Rep) {
    let mode = args.param_s("mode", "all");
    let maxlen = args.param_u("maxlen", 4) as usize;
    let shard = args.shard;
    let nshards = args.nshards;

    // ---- part A: exhaustive mutator sequences over four slots (sharded by the first two steps)
    if mode == "all" || mode == "seq" {
        let o = run_case(1, move |_| {
            let mut out = CaseOut::default();
            let u = slots4();
            let all = steps(4);
            let mut idx = 0u64;
            let mut nt_total = 0;
            let mut last_prefix = String::new();
            // length-1 sequences are checked by shard 0
            for (i, s1) in all.iter().enumerate() {
                for (j, s2) in all.iter().enumerate() {
                    let _ = (i, j);
                    let mine = idx % nshards == shard;
                    idx += 1;
                    if !mine {
                        continue;
                    }
                    let mut m = SlotMap::new();
                    let mut r = Ref::new();
                    last_prefix = format!("{:?} then every continuation up to length {}", [*s1, *s2], maxlen);
                    let mut d = Dfs { u: &u, all: all.clone(), maxlen: 1, out: &mut out, path: vec![], nontrivial: 0 };
                    // apply s1 then s2 by running depth-1 DFS restricted to the given step
                    d.all = vec![*s1];
                    if j == 0 {
                        d.go(&m, &r, false); // observe after s1 exactly once per s1
                    }
                    apply(&mut m, &mut r, &u, *s1);
                    let nt1 = false;
                    let mut d = Dfs { u: &u, all: vec![*s2], maxlen: 2, out: &mut out, path: vec![*s1], nontrivial: 0 };
                    d.go(&m, &r, nt1);
                    let ntb = d.nontrivial;
                    let nt2 = step_nt(&r, &u, *s2);
                    apply(&mut m, &mut r, &u, *s2);
                    let mut d = Dfs { u: &u, all: all.clone(), maxlen, out: &mut out, path: vec![*s1, *s2], nontrivial: 0 };
                    d.go(&m, &r, nt2);
                    nt_total += ntb + d.nontrivial;
                }
            }
            out.add("nt_exact", nt_total);
            out.sample = Some(J::obj(vec![("mode", J::s("exhaustive-seq")), ("maxlen", J::I(maxlen as i64)), ("universe", J::s(format!("{u:?}"))), ("last_prefix_enumerated", J::s(last_prefix))]));
            out
        });
        rep.absorb(1, o);
        rep.extra.insert("seq_maxlen".into(), J::I(maxlen as i64));
    }

    // ---- part B: all 625 maps, all pairs (binary ops), sharded by first map
    if mode == "all" || mode == "pairs" {
        let o = run_case(2, move |_| {
            let mut out = CaseOut::default();
            let u = slots4();
            let maps = all_maps(&u);
            let mut seen_fresh = BTreeSet::new();
            let mut nt = 0u64;
            let mut last_pair = String::new();
            for (i, ra) in maps.iter().enumerate() {
                if (i as u64) % nshards != shard {
                    continue;
                }
                let a = build_rev(ra);
                last_pair = format!("a={} with every b of the 625 maps", show(ra));
                for (j, rb) in maps.iter().enumerate() {
                    let b = build_iter(rb, j);
                    out.inc("pairs");
                    if !ra.is_empty() && !rb.is_empty() {
                        nt += 1;
                    }
                    match binary(&a, ra, &b, rb, &mut seen_fresh, &u) {
                        Ok(n) => out.add("observations", n),
                        Err(what) => {
                            let case = J::obj(vec![("mode", J::s("pairs")), ("a", J::s(show(ra))), ("b", J::s(show(rb)))]);
                            out.fail(Fail::new("slotmap-mismatch", what.clone(), format!("binary op `{what}` on a={} b={}", show(ra), show(rb)), case));
                            return out;
                        }
                    }
                }
            }
            out.add("nt_exact", nt);
            out.sample = Some(J::obj(vec![("mode", J::s("all-pairs-of-625-maps")), ("last_pair", J::s(last_pair))]));
            out
        });
        rep.absorb(2, o);
    }

    // ---- part C: associativity on triples of partial injections
    if mode == "all" || mode == "assoc" {
        let full = args.param_u("assoc_full", 0) == 1;
        let seed = args.seed;
        let o = run_case(3, move |_| {
            let mut out = CaseOut::default();
            let u = slots4();
            let inj: Vec<Ref> = all_maps(&u).into_iter().filter(is_inj).collect();
            out.add("partial_injections", if shard == 0 { inj.len() as u64 } else { 0 });
            let mut rng = Rng::new(seed ^ 0xA550C ^ shard);
            let mut nt = 0;
            let n = inj.len();
            let mut chk = |ra: &Ref, rb: &Ref, rc: &Ref, out: &mut CaseOut| -> bool {
                let (a, b, c) = (build_rev(ra), build_sorted(rb), build_iter(rc, 1));
                let l = a.compose_partial(&b).compose_partial(&c);
                let r = a.compose_partial(&b.compose_partial(&c));
                let want = ref_compose_partial(&ref_compose_partial(ra, rb), rc);
                out.inc("triples");
                if !(l == r && same(&l, &want)) {
                    let case = J::obj(vec![("mode", J::s("assoc")), ("a", J::s(show(ra))), ("b", J::s(show(rb))), ("c", J::s(show(rc)))]);
                    out.fail(Fail::new("slotmap-mismatch", "associativity", format!("(a∘b)∘c != a∘(b∘c) for a={} b={} c={}", show(ra), show(rb), show(rc)), case));
                    return false;
                }
                true
            };
            if full {
                for (i, ra) in inj.iter().enumerate() {
                    if (i as u64) % nshards != shard {
                        continue;
                    }
                    for rb in &inj {
                        for rc in &inj {
                            if !chk(ra, rb, rc, &mut out) {
                                return out;
                            }
                            if !ra.is_empty() && !rb.is_empty() && !rc.is_empty() {
                                nt += 1;
                            }
                        }
                    }
                }
                out.add("nt_exact", nt);
            } else {
                for _ in 0..20000 {
                    let (ra, rb, rc) = (&inj[rng.below(n)], &inj[rng.below(n)], &inj[rng.below(n)]);
                    if !chk(ra, rb, rc, &mut out) {
                        return out;
                    }
                }
            }
            out
        });
        rep.absorb(3, o);
        rep.extra.insert("assoc_full".into(), J::B(full));
    }

    // ---- part D: random long sequences over larger alphabets (beyond inline capacity 10)
    if mode == "all" || mode == "random" {
        drive(args, rep, |rng, _cs| random_case(rng));
    }
}

fn step_nt(r: &Ref, u: &[Slot], s: Step) -> bool {
    match s {
        Step::Ins(k, _) => r.contains_key(&u[k]) || r.keys().next_back().map(|mx| u[k] < *mx).unwrap_or(false),
        Step::Rem(k) => r.contains_key(&u[k]),
    }
}

fn apply(m: &mut SlotMap, r: &mut Ref, u: &[Slot], s: Step) {
    match s {
        Step::Ins(k, v) => {
            m.insert(u[k], u[v]);
            r.insert(u[k], u[v]);
        }
        Step::Rem(k) => {
            m.remove(u[k]);
            r.remove(&u[k]);
        }
    }
}

fn random_case(rng: &mut Rng) -> CaseOut {
    let mut out = CaseOut::default();
    let n = rng.range(12, 40);
    // mixed slot kinds, created in shuffled order
    let mut u: Vec<Slot> = vec![];
    for i in 0..n {
        u.push(match rng.below(7) {
            0 | 1 => Slot::numeric((i * 3 + rng.below(3)) as u32),
            2 | 3 => Slot::fresh(),
            4 => {
                // a name of the form f<k> at (or just above) the point the fresh counter has reached: held by the user from now on,
                // so no later fill-in slot may be this one
                let f = Slot::fresh();
                match f.to_string().strip_prefix("$f").and_then(|x| x.parse::<u32>().ok()) {
                    Some(k) => Slot::named(&format!("f{}", k + 1 + rng.below(3) as u32)),
                    None => f,
                }
            }
            _ => Slot::named(&format!("n{}x", i)),
        });
    }
    u.sort();
    u.dedup();
    rng.shuffle(&mut u);
    let n = u.len();
    let len = rng.range(20, 120);
    let mut m = SlotMap::new();
    let mut r = Ref::new();
    let mut log = vec![];
    let mut maxlen = 0;
    let mut shrunk = false;
    let mut others: Vec<(SlotMap, Ref)> = vec![];
    let mut seen_fresh = BTreeSet::new();
    for step in 0..len {
        let c = rng.below(10);
        if c < 6 {
            let (k, v) = (rng.below(n), rng.below(n));
            m.insert(u[k], u[v]);
            r.insert(u[k], u[v]);
            log.push(format!("ins {k} {v}"));
        } else if c < 9 {
            // remove, biased towards present keys
            let k = if !r.is_empty() && rng.chance(3, 4) { *r.keys().nth(rng.below(r.len())).unwrap() } else { u[rng.below(n)] };
            m.remove(k);
            r.remove(&k);
            log.push(format!("rem {k:?}"));
        } else {
            others.push((m.clone(), r.clone()));
            log.push("snapshot".into());
        }
        if r.len() > maxlen {
            maxlen = r.len();
        }
        if maxlen > 10 && r.len() <= 10 {
            shrunk = true;
        }
        match observe(&m, &r, &u) {
            Ok(k) => out.add("observations", k),
            Err(what) => {
                let case = J::obj(vec![("mode", J::s("random")), ("universe", J::s(format!("{u:?}"))), ("log", J::arr_s(&log))]);
                out.fail(Fail::new("slotmap-mismatch", what.clone(), format!("random sequence step {step}: `{what}` disagrees; ref={}", show(&r)), case));
                return out;
            }
        }
        if step % 7 == 0 && !others.is_empty() {
            let (b, rb) = others[rng.below(others.len())].clone();
            match binary(&m, &r, &b, &rb, &mut seen_fresh, &u) {
                Ok(k) => out.add("observations", k),
                Err(what) => {
                    let case = J::obj(vec![("mode", J::s("random")), ("universe", J::s(format!("{u:?}"))), ("log", J::arr_s(&log)), ("b", J::s(show(&rb)))]);
                    out.fail(Fail::new("slotmap-mismatch", what.clone(), format!("random sequence step {step}: binary `{what}` disagrees"), case));
                    return out;
                }
            }
        }
    }
    out.inc("random_sequences");
    if maxlen > 10 {
        out.inc("spilled_to_heap");
        let mut hsh = 0u64;
        for l in &log {
            hsh = Rng::mix(hsh, crate::rng::fnv(l));
        }
        out.nontrivial = Some(hsh);
    }
    if shrunk {
        out.inc("shrunk_back_below_inline");
    }
    out.sample = Some(J::obj(vec![("mode", J::s("random")), ("slots", J::I(n as i64)), ("first_steps", J::arr_s(&log[..log.len().min(8)].to_vec()))]));
    out
}
