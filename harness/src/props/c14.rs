//! C14 — analysis data is the fix-point of make/merge over each class.
//! Analyses are implemented here (they are the hooks: make/merge/modify calls are logged).
use crate::core::*;
use crate::json::J;
use crate::langs::*;
use crate::props::model::*;
use crate::rng::Rng;
use crate::sym::structural_invariants;
use slotted_egraphs::*;
use std::cell::RefCell;
use std::collections::HashMap;

const P: u32 = 7;
const D: u32 = 3;

thread_local! {
    static CONFLICTS: RefCell<Vec<String>> = RefCell::new(vec![]);
    static CALLS: RefCell<(u64, u64, u64)> = RefCell::new((0, 0, 0)); // make, merge, modify
}

/// (min size, constant value in F_7, min depth)
#[derive(Default)]
pub struct A3;
pub type D3 = (u64, Option<u32>, u32);

fn merge3(l: D3, r: D3) -> D3 {
    let c = match (l.1, r.1) {
        (Some(a), Some(b)) => {
            if a != b {
                CONFLICTS.with(|c| c.borrow_mut().push(format!("merge of constants {a} and {b}")));
            }
            Some(a.min(b))
        }
        (Some(a), None) | (None, Some(a)) => Some(a),
        (None, None) => None,
    };
    (l.0.min(r.0), c, l.2.min(r.2))
}

fn make3(get: &dyn Fn(Id) -> D3, n: &LArith) -> D3 {
    let kids: Vec<D3> = n.applied_id_occurrences().iter().map(|a| get(a.id)).collect();
    let size = kids.iter().fold(1u64, |s, k| s.saturating_add(k.0));
    let depth = 1 + kids.iter().map(|k| k.2).max().unwrap_or(0);
    let c = match n {
        LArith::Num(k) => Some(k % P),
        LArith::Var(_) => None,
        LArith::Add(..) => kids[0].1.zip(kids[1].1).map(|(a, b)| (a + b) % P),
        LArith::Mul(..) => kids[0].1.zip(kids[1].1).map(|(a, b)| (a * b) % P),
        // a constant body does not depend on the bound slot
        LArith::Sum(_) => kids[0].1.map(|a| (a * D) % P),
        LArith::Let(..) => kids[0].1,
    };
    (size, c, depth)
}

impl Analysis<LArith> for A3 {
    type Data = D3;
    fn make(eg: &EGraph<LArith, Self>, enode: &LArith) -> D3 {
        CALLS.with(|c| c.borrow_mut().0 += 1);
        make3(&|i| *eg.analysis_data(i), enode)
    }
    fn merge(l: D3, r: D3) -> D3 {
        CALLS.with(|c| c.borrow_mut().1 += 1);
        merge3(l, r)
    }
    fn modify(eg: &mut EGraph<LArith, Self>, i: Id) {
        CALLS.with(|c| c.borrow_mut().2 += 1);
        if crate::core::case_salt() % 2 == 0 {
            // the hook as the repository's own constant-propagation test writes it: it takes the id it is handed at face value (the
            // class it is called for is live), looks at the class's e-nodes and unions with the identity invocation of that id
            if let Some(k) = eg.analysis_data(i).1 {
                let already = eg.enodes(i).iter().any(|n| matches!(n, LArith::Num(_)));
                if !already {
                    let a = eg.add(LArith::Num(k));
                    eg.union(&a, &eg.mk_identity_applied_id(i));
                }
            }
            return;
        }
        if let Some(k) = eg.analysis_data(i).1 {
            let a = eg.add(LArith::Num(k));
            let ident = eg.mk_identity_applied_id(eg.find_applied_id(&eg.mk_identity_applied_id(i)).id);
            eg.union(&a, &ident);
        }
    }
}

/// own least fix-point of the size, independent of the crate
fn own_min_size(eg: &EGraph<LArith, A3>) -> HashMap<Id, u64> {
    let mut best: HashMap<Id, u64> = HashMap::new();
    let nodes: Vec<(Id, Vec<LArith>)> = eg.ids().into_iter().map(|i| (i, eg.enodes(i).into_iter().collect())).collect();
    loop {
        let mut ch = false;
        for (i, ns) in &nodes {
            for n in ns {
                let ks: Option<Vec<u64>> = n.applied_id_occurrences().iter().map(|c| best.get(&c.id).copied()).collect();
                if let Some(ks) = ks {
                    let c = ks.iter().fold(1u64, |s, k| s.saturating_add(*k));
                    if best.get(i).map(|o| c < *o).unwrap_or(true) {
                        best.insert(*i, c);
                        ch = true;
                    }
                }
            }
        }
        if !ch {
            break;
        }
    }
    best
}

fn check_all(eg: &EGraph<LArith, A3>, rng: &mut Rng, out: &mut CaseOut) -> Result<(), (String, String)> {
    let own = own_min_size(eg);
    let ex = Extractor::<LArith, AstSize>::new(eg, AstSize);
    let ev = Ev::new(eg, M1, rng.next());
    for i in eg.ids() {
        let data = *eg.analysis_data(i);
        // datum = join of make over all e-nodes with current child data
        let mut acc: Option<D3> = None;
        for n in eg.enodes(i) {
            let v = make3(&|j| *eg.analysis_data(j), &n);
            acc = Some(match acc {
                None => v,
                Some(a) => merge3(a, v),
            });
        }
        out.inc("class_checks");
        let Some(acc) = acc else { return Err(("class-without-enodes".into(), format!("live class {i:?} has no e-nodes"))) };
        if acc != data {
            return Err(("datum-not-join-of-make".into(), format!("class {i:?}: datum {data:?} but the join of make over its e-nodes is {acc:?}")));
        }
        // min size = own least fix-point = extractor's best cost
        if let Some(o) = own.get(&i) {
            if data.0 != *o {
                return Err(("min-size-not-least-fixpoint".into(), format!("class {i:?}: min-size datum {} but own least fix-point {}", data.0, o)));
            }
            let best = ex.get_best_cost::<A3>(&eg.mk_identity_applied_id(i));
            if best != data.0 {
                return Err(("min-size-differs-from-extractor".into(), format!("class {i:?}: min-size datum {} but Extractor<AstSize> best cost {}", data.0, best)));
            }
        }
        // constant datum = model value
        if ev.has_value(i) {
            let mut slots: Vec<Slot> = eg.slots(i).iter().copied().collect();
            slots.sort();
            if let Some(k) = data.1 {
                for _ in 0..4 {
                    let env: Env = slots.iter().map(|s| (*s, rng.below(P as usize) as u32)).collect();
                    let v = ev.class(i, &env).map_err(|e| ("eval-error".to_string(), e))?;
                    out.inc("const_vs_model");
                    if v != k {
                        return Err(("constant-differs-from-model".into(), format!("class {i:?}: constant datum {k} but model value {v} under {env:?}")));
                    }
                }
            }
            // a class containing a ground arithmetic e-node (all children constant) must be constant
            for n in eg.enodes(i) {
                let ground = !matches!(n, LArith::Var(_)) && n.applied_id_occurrences().iter().all(|c| eg.analysis_data(c.id).1.is_some()) && !matches!(n, LArith::Let(..));
                if ground && data.1.is_none() {
                    return Err(("ground-class-without-constant".into(), format!("class {i:?} contains the ground e-node {n:?} but its constant datum is None")));
                }
            }
        }
    }
    let c = CONFLICTS.with(|c| c.borrow().clone());
    if let Some(c) = c.first() {
        return Err(("merge-conflict".into(), format!("recorded merge conflict: {c}")));
    }
    Ok(())
}

/// rename the slot names of a term text: p, q and the generated binder names get other spellings
fn rename_text(t: &str, style: usize) -> String {
    if style == 0 {
        return t.to_string();
    }
    let mut out = String::new();
    let mut chars = t.chars().peekable();
    while let Some(c) = chars.next() {
        if c == '$' {
            let mut name = String::new();
            while let Some(d) = chars.peek() {
                if d.is_alphanumeric() {
                    name.push(*d);
                    chars.next();
                } else {
                    break;
                }
            }
            let k: u32 = name.bytes().fold(7u32, |h, b| h.wrapping_mul(31).wrapping_add(b as u32)) % 100_000;
            let new = match style {
                1 => format!("{}", 3 + k),              // numeric names
                2 => format!("f{}", 1 + k),             // names that print like fresh slots
                _ => format!("zz{}", 100_000 - k),      // textual, reverse order
            };
            out.push('$');
            out.push_str(&new);
        } else {
            out.push(c);
        }
    }
    out
}

/// C11 lane: analysis data must not depend on slot names - the same history under two namings gives the same data trace
pub fn run_renamed_case(rng: &mut Rng) -> CaseOut {
    let style = 1 + rng.below(3);
    let mut r2 = rng.clone();
    let (mut out, trace_a) = run_inner(rng, 0);
    if !out.fails.is_empty() || out.inconclusive.is_some() {
        return out;
    }
    // second run in a fresh thread (fresh slot table), same random choices, renamed slots
    // (the per-case salt travels with the case: both runs build their rules and their hook in the same variants)
    let salt = crate::core::case_salt();
    let h = std::thread::Builder::new().stack_size(128 << 20).spawn(move || { crate::core::CASE_SALT.with(|c| c.set(salt)); run_inner(&mut r2, style) }).unwrap();
    let (out_b, trace_b) = h.join().unwrap();
    out.inc("renamed_runs");
    if let Some(f) = out_b.fails.first() {
        out.fail(Fail::new("renaming-dependence", "failure-only-under-renaming", format!("naming style {style}: {}", f.detail), f.case.clone()));
        return out;
    }
    if trace_a != trace_b {
        let k = trace_a.iter().zip(trace_b.iter()).position(|(a, b)| a != b).unwrap_or(trace_a.len().min(trace_b.len()));
        out.fail(Fail::new("renaming-dependence", "analysis-data", format!("naming style {style}: analysis data per handle / live classes differ at step {k}: {:?} vs {:?}", trace_a.get(k), trace_b.get(k)), out.sample.clone().unwrap_or(J::Null)));
    }
    out
}

pub fn run_case(rng: &mut Rng) -> CaseOut {
    run_inner(rng, 0).0
}

fn run_inner(rng: &mut Rng, style: usize) -> (CaseOut, Vec<(usize, Vec<D3>)>) {
    let mut trace: Vec<(usize, Vec<D3>)> = vec![];
    let out = run_inner2(rng, style, &mut trace);
    (out, trace)
}

/// sparse monitoring: nothing is queried between the operations (queries canonicalise handles and compress union-find paths);
/// handles are read for the first time after the last operation, oldest first
static SPARSE: std::sync::atomic::AtomicBool = std::sync::atomic::AtomicBool::new(false);

fn run_inner2(rng: &mut Rng, style: usize, trace: &mut Vec<(usize, Vec<D3>)>) -> CaseOut {
    let mut out = CaseOut::default();
    let sparse = SPARSE.load(std::sync::atomic::Ordering::Relaxed);
    CONFLICTS.with(|c| c.borrow_mut().clear());
    CALLS.with(|c| *c.borrow_mut() = (0, 0, 0));
    let pool = rule_pool(M1);
    let mut chosen: Vec<RuleSpec> = vec![];
    let mut idx = rng.perm(pool.len());
    idx.truncate(rng.range(2, 7));
    for i in idx {
        chosen.push(pool[i].clone());
    }
    let rws: Vec<Rewrite<LArith, A3>> = chosen.iter().map(mk_rewrite).collect();
    let mut eg: EGraph<LArith, A3> = EGraph::default();
    let mut log: Vec<String> = vec![];
    let mut handles: Vec<(AppliedId, String)> = vec![];
    let steps = rng.range(3, 10);
    let mut lowered = false;
    for step in 0..steps {
        let roll = rng.below(10);
        let before_data: Vec<D3> = if sparse { vec![] } else { handles.iter().map(|(h, _)| *eg.analysis_data(h.id)).collect() };
        let mut united: Option<(usize, usize)> = None;
        let mut desc = String::new();
        let r = guard(|| {
            if roll < 4 || handles.is_empty() {
                let mut scope = vec!["p".to_string(), "q".to_string()];
                let mut fresh = step * 100;
                let d = rng.range(1, 3);
                let t = rename_text(&gen_arith(rng, d, &mut scope, &mut fresh, false), style);
                desc = format!("add {t}");
                let id = eg.add_expr(RecExpr::parse(&t).unwrap());
                handles.push((id, t));
            } else if roll < 7 {
                // union with a model-equal variant (built around the same text); sometimes the variant is smaller than what parents saw
                let i = rng.below(handles.len());
                let t = handles[i].1.clone();
                let v = match rng.below(6) {
                    0 => format!("(add {t} 0)"),
                    1 => format!("(mul 1 {t})"),
                    2 => format!("(add 0 (mul {t} 1))"),
                    3 => format!("(let $z{step} {t} 5)"),
                    4 => format!("(let $z{step} (var $z{step}) {t})"),
                    _ => format!("(add (mul 0 (var $p)) {t})"),
                };
                // (`t` is already renamed; rename only the freshly written names)
                let v = if style == 0 { v } else { v.replace(&t, "\u{1}") };
                let v = rename_text(&v, style).replace("\u{1}", &t);
                // a parent over the bigger variant first, so that the union lowers a child's datum afterwards
                let parent = format!("(mul 2 {v})");
                // (half of the time also a parent over the other side: the two parents become congruent by the union, one of
                // them dies by congruence and its handle stays behind a union-find chain)
                let parent2 = format!("(mul 2 {t})");
                let both = rng.chance(1, 2);
                desc = if both { format!("add {parent}; add {parent2}; union {t} = {v}") } else { format!("add {parent}; union {t} = {v}") };
                let ph = eg.add_expr(RecExpr::parse(&parent).unwrap());
                let b = eg.add_expr(RecExpr::parse(&v).unwrap());
                let a = handles[i].0.clone();
                handles.push((b.clone(), v));
                united = Some((i, handles.len() - 1));
                handles.push((ph, parent));
                if both {
                    let ph2 = eg.add_expr(RecExpr::parse(&parent2).unwrap());
                    handles.push((ph2, parent2));
                }
                if sparse {
                    eg.union(&a, &b);
                } else {
                    let (da, db) = (eg.analysis_data(a.id).0, eg.analysis_data(b.id).0);
                    eg.union(&a, &b);
                    if eg.analysis_data(b.id).0 < da.max(db) {
                        lowered = true;
                    }
                }
            } else if roll == 7 {
                // a two-member class that dies by congruence while its other member waits for re-analysis: F = { X + W, X * 1 } (W = 0 * B,
                // big), G = { d + W } with several users, X a bigger variant of d. The union X = d makes X + W congruent to d + W (F is
                // merged into the busier G) and, in the same rebuild, lowers the datum of X * 1, which moves with F. Padding constants shift
                // the class ids and thereby the order of the work list.
                let i = rng.below(handles.len());
                let t = handles[i].1.clone();
                let big = |x: &str, k: usize| match k { 0 => format!("(add {x} 0)"), 1 => format!("(mul 1 {x})"), _ => format!("(add 0 (mul {x} 1))") };
                let x = big(&t, rng.below(3));
                let b = rename_text(["(add (var $p) (mul (var $q) (var $p)))", "(mul (add (var $q) 2) (add (var $p) (var $q)))", "(add (var $q) (add (var $q) (add (var $q) (var $p))))"][rng.below(3)], style);
                let w = format!("(mul 0 {b})");
                let m1 = format!("(add {x} {w})");
                let m2 = match rng.below(3) { 0 => format!("(mul {x} 1)"), 1 => format!("(add {x} 0)"), _ => format!("(mul 1 {x})") };
                let g = format!("(add {t} {w})");
                desc = format!("add {m1}; add {m2}; union them; add {g} with users; union {x} = {t}");
                for _ in 0..rng.below(6) {
                    let k = 1000 + rng.below(1000);
                    eg.add_expr(RecExpr::parse(&format!("{k}")).unwrap());
                }
                let order = rng.chance(1, 2);
                let mut build_f = |eg: &mut EGraph<LArith, A3>, handles: &mut Vec<(AppliedId, String)>| {
                    let a = eg.add_expr(RecExpr::parse(&m1).unwrap());
                    let c = eg.add_expr(RecExpr::parse(&m2).unwrap());
                    eg.union(&a, &c);
                    handles.push((a, m1.clone()));
                    handles.push((c, m2.clone()));
                };
                if order {
                    build_f(&mut eg, &mut handles);
                }
                let gh = eg.add_expr(RecExpr::parse(&g).unwrap());
                handles.push((gh, g.clone()));
                for u in 0..rng.range(1, 4) {
                    let ut = match u % 3 { 0 => format!("(mul {} {g})", 2 + u), 1 => format!("(add {g} {})", 2 + u), _ => format!("(mul {g} {g})") };
                    let uh = eg.add_expr(RecExpr::parse(&ut).unwrap());
                    handles.push((uh, ut));
                }
                if !order {
                    build_f(&mut eg, &mut handles);
                }
                let xh = eg.add_expr(RecExpr::parse(&x).unwrap());
                let a = handles[i].0.clone();
                handles.push((xh.clone(), x.clone()));
                united = Some((i, handles.len() - 1));
                eg.union(&xh, &a);
                lowered = true;
            } else if eg.total_number_of_nodes() < 120 {
                desc = format!("rewrite {:?}", chosen.iter().map(|r| r.name).collect::<Vec<_>>());
                apply_rewrites(&mut eg, &rws);
            } else {
                desc = "noop".into();
            }
        });
        log.push(desc.clone());
        let cj = J::obj(vec![("log", J::arr_s(&log)), ("rules", J::arr_s(&chosen.iter().map(|r| format!("{}: {} => {}", r.name, r.lhs, r.rhs)).collect::<Vec<_>>()))]);
        if let Err(p) = r {
            out.fail(Fail::panic("panic", &p, &format!("step {step}: {desc}"), cj));
            return out;
        }
        out.inc("operations");
        if eg.total_number_of_nodes() > 500 {
            out.inc("runs_over_node_budget");
            break;
        }
        if sparse && step + 1 < steps {
            continue;
        }
        let res = guard(|| -> Result<(), (String, String)> {
            if sparse {
                // first touch of every handle, oldest first: the datum reported for an old handle is the datum of its class
                for (k, (h, txt)) in handles.iter().enumerate() {
                    let d_old = *eg.analysis_data(h.id);
                    let f = eg.find_applied_id(h);
                    let d_new = *eg.analysis_data(f.id);
                    out.inc("old_handle_data_reads");
                    if d_old != d_new {
                        return Err(("equal-classes-different-datum".into(), format!("handle #{k} ({txt}): analysis_data of the handle as returned is {d_old:?}, of its canonical form {d_new:?}")));
                    }
                }
                return check_all(&eg, rng, &mut out);
            }
            // a union's result is the join of both sides (here: at most the minimum of what both had before)
            if let Some((i, j)) = united {
                let after = *eg.analysis_data(handles[i].0.id);
                let bj = *eg.analysis_data(handles[j].0.id);
                if after != bj {
                    return Err(("equal-classes-different-datum".into(), format!("after the union the two handles report {after:?} and {bj:?}")));
                }
                if i < before_data.len() {
                    let b = before_data[i];
                    if after.0 > b.0 || after.2 > b.2 || (b.1.is_some() && after.1 != b.1) {
                        return Err(("union-result-not-join".into(), format!("datum before the union {b:?}, after {after:?}")));
                    }
                }
            }
            // data never moves up along a history (min lattices)
            for (k, (h, _)) in handles.iter().enumerate() {
                if k < before_data.len() {
                    let a = *eg.analysis_data(h.id);
                    if a.0 > before_data[k].0 || a.2 > before_data[k].2 {
                        return Err(("datum-moved-up".into(), format!("handle #{k}: {:?} -> {a:?}", before_data[k])));
                    }
                }
            }
            check_all(&eg, rng, &mut out)
        });
        match res {
            Ok(Ok(())) => {}
            Ok(Err((sig, d))) => {
                out.fail(Fail::new("analysis", sig, format!("after step {step} ({desc}): {d}"), cj));
                return out;
            }
            Err(p) => {
                out.fail(Fail::check_panic(&p, &format!("analysis check after step {step}"), cj));
                return out;
            }
        }
        trace.push((eg.ids().len(), handles.iter().map(|(h, _)| *eg.analysis_data(h.id)).collect()));
        let (n, bad) = structural_invariants(&eg);
        out.add("invariant_checks", n);
        if let Some((sig, d)) = bad {
            // with an analysis attached other e-nodes are re-processed after a union: every structural invariant is judged here too
            out.fail(Fail::new(if sig.contains("not-drained") { "analysis" } else { "inconsistent" }, sig, format!("after step {step} ({desc}): {d}"), cj));
            return out;
        }
    }
    // C09 with a non-trivial analysis attached: every inserted term is still found by lookup (equal to its handle) and
    // re-inserting it allocates nothing - an analysis changes which e-nodes are re-processed after a union
    {
        let cj = J::obj(vec![("log", J::arr_s(&log))]);
        for (hd, txt) in &handles {
            let re: RecExpr<LArith> = RecExpr::parse(txt).unwrap();
            let r = guard(|| -> Result<(), (String, String)> {
                let before = eg.progress().number_of_classes;
                match lookup_rec_expr(&re, &eg) {
                    None => return Err(("lookup-none-for-inserted-term".into(), format!("lookup_rec_expr({txt}) is None although the term was inserted (analysis attached)"))),
                    Some(a) => {
                        if !eg.eq(&a, hd) {
                            return Err(("lookup-differs-from-handle".into(), format!("lookup_rec_expr({txt}) = {a:?} is not equal to the handle {hd:?}")));
                        }
                    }
                }
                let a = eg.add_expr(re.clone());
                if eg.progress().number_of_classes != before {
                    return Err(("known-term-created-class".into(), format!("re-inserting {txt} allocated a class (analysis attached)")));
                }
                if !eg.eq(&a, hd) {
                    return Err(("known-term-wrong-invocation".into(), format!("re-inserting {txt} returned {a:?}, not equal to {hd:?}")));
                }
                Ok(())
            });
            out.inc("probes_with_analysis");
            match r {
                Ok(Ok(())) => {}
                Ok(Err((sig, d))) => {
                    out.fail(Fail::new("insertion-not-canonical", sig, d, cj));
                    return out;
                }
                Err(p) => {
                    out.fail(Fail::panic("panic", &p, &format!("probe of {txt}"), cj));
                    return out;
                }
            }
        }
    }
    let calls = CALLS.with(|c| *c.borrow());
    out.add("make_calls", calls.0);
    out.add("merge_calls", calls.1);
    out.add("modify_calls", calls.2);
    out.inc("runs");
    if lowered {
        out.inc("runs_where_union_lowered_a_datum");
    }
    let consts = eg.ids().iter().filter(|i| eg.analysis_data(**i).1.is_some()).count();
    out.add("constant_classes_at_end", consts as u64);
    if calls.2 > 0 && log.iter().any(|l| l.starts_with("rewrite") || l.contains("union")) {
        let mut h = 0;
        for l in &log {
            h = Rng::mix(h, crate::rng::fnv(l));
        }
        out.nontrivial = Some(h);
    }
    out.sample = Some(J::obj(vec![("mode", J::s("analysis-history")), ("log", J::arr_s(&log))]));
    out
}

pub fn run(args: &Args, rep: &mut Rep) {
    SPARSE.store(args.param_u("sparse", 0) == 1, std::sync::atomic::Ordering::Relaxed);
    if args.param_u("renamed", 0) == 1 {
        drive(args, rep, |rng, _| run_renamed_case(rng));
    } else {
        drive(args, rep, |rng, _| run_case(rng));
    }
}
