//! C07 — explanations are valid proofs of the queried equation.
//! Independent checker working on *terms*: every proof node's two sides are rendered with get_syn_expr and converted into
//! the harness's own term model; each rule (refl / sym / trans / cong / explicit) is validated on those terms.
#![allow(unused)]
use crate::core::*;
use crate::gen::*;
use crate::json::J;
use crate::langs::*;
use crate::rng::Rng;
use crate::sym::*;
use crate::tm::*;
use slotted_egraphs::*;
use std::collections::{BTreeMap, BTreeSet, HashMap, HashSet};

#[cfg(not(feature = "explanations"))]
pub fn run(_args: &Args, _rep: &mut Rep) {
    eprintln!("C07 needs a build with the explanations feature");
    std::process::exit(2);
}

/// free-name correspondences of two terms that are equal up to renaming of free names (both canonical); None if they differ structurally
fn pairs(a: &Tm, b: &Tm, out: &mut Vec<(Name, Name)>) -> bool {
    if a.op != b.op || a.pay != b.pay || a.slots.len() != b.slots.len() || a.kids.len() != b.kids.len() {
        return false;
    }
    for (x, y) in a.slots.iter().zip(b.slots.iter()) {
        if *x >= BOUND || *y >= BOUND {
            if x != y {
                return false;
            }
        } else {
            out.push((*x, *y));
        }
    }
    for ((ba, ka), (bb, kb)) in a.kids.iter().zip(b.kids.iter()) {
        if ba != bb || !pairs(ka, kb, out) {
            return false;
        }
    }
    true
}

#[derive(Default, Clone, Debug)]
struct Theta(BTreeMap<Name, Name>);
impl Theta {
    fn bind(&mut self, a: Name, b: Name) -> bool {
        match self.0.get(&a) {
            Some(o) => *o == b,
            None => {
                self.0.insert(a, b);
                true
            }
        }
    }
    fn injective_on(&self, s: &BTreeSet<Name>) -> bool {
        let img: BTreeSet<Name> = s.iter().filter_map(|x| self.0.get(x).copied()).collect();
        img.len() == s.iter().filter(|x| self.0.contains_key(x)).count()
    }
}

/// is `L = R` an instance of `A = B` under a renaming that is injective on each side of the premise?
fn instance(a: &Tm, b: &Tm, l: &Tm, r: &Tm) -> Result<(), String> {
    let (mut p1, mut p2) = (vec![], vec![]);
    if !pairs(a, l, &mut p1) {
        return Err(format!("left sides differ structurally: {} vs {}", a.text(&LSYM, &pname), l.text(&LSYM, &pname)));
    }
    if !pairs(b, r, &mut p2) {
        return Err(format!("right sides differ structurally: {} vs {}", b.text(&LSYM, &pname), r.text(&LSYM, &pname)));
    }
    let mut th = Theta::default();
    for (x, y) in p1.iter().chain(p2.iter()) {
        if !th.bind(*x, *y) {
            return Err(format!("no single renaming: slot {} would have to become both {} and {}", pname(*x), pname(th.0[x]), pname(*y)));
        }
    }
    if !th.injective_on(&a.fv()) || !th.injective_on(&b.fv()) {
        return Err("the renaming identifies two slots of one side of the premise".into());
    }
    Ok(())
}

fn transitivity(pl: &Tm, pr: &Tm, ql: &Tm, qr: &Tm, l: &Tm, r: &Tm) -> Result<(), String> {
    let (mut a, mut b, mut m) = (vec![], vec![], vec![]);
    if !pairs(pl, l, &mut a) {
        return Err("left side of the first premise does not match the conclusion's left side".into());
    }
    if !pairs(qr, r, &mut b) {
        return Err("right side of the second premise does not match the conclusion's right side".into());
    }
    if !pairs(pr, ql, &mut m) {
        return Err(format!("the middle terms differ structurally: {} vs {}", pr.text(&LSYM, &pname), ql.text(&LSYM, &pname)));
    }
    let (mut t1, mut t2) = (Theta::default(), Theta::default());
    for (x, y) in &a {
        if !t1.bind(*x, *y) {
            return Err("first premise: no functional renaming onto the conclusion".into());
        }
    }
    for (x, y) in &b {
        if !t2.bind(*x, *y) {
            return Err("second premise: no functional renaming onto the conclusion".into());
        }
    }
    // propagate through the middle term until nothing changes; unconstrained components get shared fresh names
    let mut fresh = 800_000;
    loop {
        let mut changed = false;
        for (x, y) in &m {
            match (t1.0.get(x).copied(), t2.0.get(y).copied()) {
                (Some(u), Some(v)) => {
                    if u != v {
                        return Err(format!("the middle terms disagree: slot {} of the first premise becomes {}, the corresponding slot {} of the second becomes {}", pname(*x), pname(u), pname(*y), pname(v)));
                    }
                }
                (Some(u), None) => {
                    t2.0.insert(*y, u);
                    changed = true;
                }
                (None, Some(v)) => {
                    t1.0.insert(*x, v);
                    changed = true;
                }
                (None, None) => {}
            }
        }
        if !changed {
            if let Some((x, y)) = m.iter().find(|(x, y)| !t1.0.contains_key(x) && !t2.0.contains_key(y)) {
                fresh += 1;
                t1.0.insert(*x, fresh);
                t2.0.insert(*y, fresh);
                continue;
            }
            break;
        }
    }
    if !t1.injective_on(&pl.fv()) || !t1.injective_on(&pr.fv()) {
        return Err("first premise: the renaming identifies two slots of one side".into());
    }
    if !t2.injective_on(&ql.fv()) || !t2.injective_on(&qr.fv()) {
        return Err("second premise: the renaming identifies two slots of one side".into());
    }
    Ok(())
}

/// open the i-th child of a canonical node: its binders (BOUND+k at level 0) become common ordinary names
fn open_kid(t: &Tm, i: usize) -> Tm {
    let (bs, k) = &t.kids[i];
    let m: BTreeMap<Name, Name> = bs.iter().enumerate().map(|(j, b)| (*b, 900_000 + j as Name)).collect();
    k.rename(&m).canon()
}

// ---------------------------------------------------------------------------------------------
// rule patterns at the term level (for Explicit leaves justified by a rule name)

#[derive(Clone, Debug)]
enum RP {
    Var(String),
    Node { op: &'static str, slots: Vec<String>, kids: Vec<(Vec<String>, RP)> },
}

fn rp_of_sx(x: &Sx) -> Option<RP> {
    match x {
        Sx::Atom(a) => {
            if let Some(v) = a.strip_prefix('?') {
                return Some(RP::Var(v.to_string()));
            }
            let o = LSYM.op(a)?;
            Some(RP::Node { op: o.name, slots: vec![], kids: vec![] })
        }
        Sx::Slot(_) => None,
        Sx::List(v) => {
            let Sx::Atom(op) = v.get(0)? else { return None };
            let o = LSYM.op(op)?;
            let mut i = 1;
            let (mut slots, mut kids) = (vec![], vec![]);
            for f in o.fields {
                match f {
                    Fld::S | Fld::X(_) => {
                        let Sx::Slot(s) = v.get(i)? else { return None };
                        slots.push(s.clone());
                        i += 1;
                    }
                    Fld::C(k) => {
                        let mut bs = vec![];
                        for _ in 0..*k {
                            let Sx::Slot(s) = v.get(i)? else { return None };
                            bs.push(s.clone());
                            i += 1;
                        }
                        kids.push((bs, rp_of_sx(v.get(i)?)?));
                        i += 1;
                    }
                    Fld::P => return None,
                }
            }
            Some(RP::Node { op: o.name, slots, kids })
        }
    }
}

/// match a rule pattern against a term (raw, binder names kept); rho: pattern slot -> name (injective), sigma: var -> term
fn rp_match(p: &RP, t: &Tm, rho: &mut BTreeMap<String, Name>, sigma: &mut BTreeMap<String, Tm>) -> bool {
    match p {
        RP::Var(v) => match sigma.get(v) {
            Some(o) => o.canon() == t.canon(),
            None => {
                sigma.insert(v.clone(), t.clone());
                true
            }
        },
        RP::Node { op, slots, kids } => {
            if *op != t.op || slots.len() != t.slots.len() || kids.len() != t.kids.len() {
                return false;
            }
            for (s, n) in slots.iter().zip(t.slots.iter()) {
                match rho.get(s) {
                    Some(o) => {
                        if o != n {
                            return false;
                        }
                    }
                    None => {
                        if rho.values().any(|v| v == n) {
                            return false;
                        }
                        rho.insert(s.clone(), *n);
                    }
                }
            }
            for ((pb, pk), (tb, tk)) in kids.iter().zip(t.kids.iter()) {
                if pb.len() != tb.len() {
                    return false;
                }
                for (s, n) in pb.iter().zip(tb.iter()) {
                    if let Some(o) = rho.get(s) {
                        if o != n {
                            return false;
                        }
                    } else {
                        if rho.values().any(|v| v == n) {
                            return false;
                        }
                        rho.insert(s.clone(), *n);
                    }
                }
                if !rp_match(pk, tk, rho, sigma) {
                    return false;
                }
            }
            true
        }
    }
}

fn rp_inst(p: &RP, rho: &mut BTreeMap<String, Name>, sigma: &BTreeMap<String, Tm>, fresh: &mut Name) -> Option<Tm> {
    match p {
        RP::Var(v) => sigma.get(v).cloned(),
        RP::Node { op, slots, kids } => {
            let mut name = |s: &String, rho: &mut BTreeMap<String, Name>, fresh: &mut Name| -> Name {
                if let Some(n) = rho.get(s) {
                    return *n;
                }
                *fresh += 1;
                rho.insert(s.clone(), *fresh);
                *fresh
            };
            let sl: Vec<Name> = slots.iter().map(|s| name(s, rho, fresh)).collect();
            let mut ks = vec![];
            for (bs, k) in kids {
                let b: Vec<Name> = bs.iter().map(|s| name(s, rho, fresh)).collect();
                ks.push((b, rp_inst(k, rho, sigma, fresh)?));
            }
            Some(Tm { op, slots: sl, kids: ks, pay: None })
        }
    }
}

pub struct RuleT {
    pub name: String,
    pub lhs_txt: String,
    pub rhs_txt: String,
    lhs: RP,
    rhs: Option<RP>, // None: computed right side (b[x := t]), exempt from syntactic leaf validation
}

impl RuleT {
    pub fn new(n: &str, l: &str, r: &str) -> RuleT {
        let lhs = rp_of_sx(&read_sx(l).unwrap()).unwrap();
        let rhs = if r.contains('[') { None } else { Some(rp_of_sx(&read_sx(r).unwrap()).unwrap()) };
        RuleT { name: n.into(), lhs_txt: l.into(), rhs_txt: r.into(), lhs, rhs }
    }
}

#[cfg(feature = "explanations")]
pub struct Checker<'a> {
    pub eg: &'a EGraph<LSym>,
    pub it: Interner,
    cache: HashMap<AppliedId, (Tm, Tm)>,
    seen: HashSet<*const ProvenEqRaw>,
    pub asserted: &'a [(Tm, Tm, String)],
    pub rules: &'a [RuleT],
    pub kinds: [u64; 5],
    pub exempt_leaves: u64,
    pub rule_leaves: u64,
}

#[cfg(feature = "explanations")]
impl<'a> Checker<'a> {
    pub fn new(eg: &'a EGraph<LSym>, asserted: &'a [(Tm, Tm, String)], rules: &'a [RuleT]) -> Self {
        Checker { eg, it: Interner::new(5000), cache: HashMap::new(), seen: HashSet::new(), asserted, rules, kinds: [0; 5], exempt_leaves: 0, rule_leaves: 0 }
    }
    /// (raw term with its binder names, canonical term)
    pub fn term(&mut self, a: &AppliedId) -> Result<(Tm, Tm), String> {
        if let Some(t) = self.cache.get(a) {
            return Ok(t.clone());
        }
        let txt = self.eg.get_syn_expr(a).to_string();
        let it = &mut self.it;
        let raw = parse_tm(&LSYM, &txt, &mut |s| it.get(s)).map_err(|e| format!("cannot read {txt}: {e}"))?;
        let c = raw.canon();
        self.cache.insert(a.clone(), (raw.clone(), c.clone()));
        Ok((raw, c))
    }
    pub fn user_term(&mut self, txt: &str) -> Tm {
        let it = &mut self.it;
        parse_tm(&LSYM, txt, &mut |s| it.get(s)).unwrap()
    }
    pub fn check(&mut self, p: &ProvenEq) -> Result<(), String> {
        // iterative DFS over the proof DAG (proofs can be deep)
        let mut stack: Vec<ProvenEq> = vec![p.clone()];
        while let Some(p) = stack.pop() {
            if !self.seen.insert(std::sync::Arc::as_ptr(&p)) {
                continue;
            }
            let e = p.equ();
            let (lraw, l) = self.term(&e.l)?;
            let (_, r) = self.term(&e.r)?;
            let show = |t: &Tm| t.text(&LSYM, &pname);
            match p.proof() {
                Proof::Reflexivity(_) => {
                    self.kinds[0] += 1;
                    if l != r {
                        return Err(format!("reflexivity step concludes {} = {}", show(&l), show(&r)));
                    }
                }
                Proof::Symmetry(SymmetryProof(x)) => {
                    self.kinds[1] += 1;
                    let xe = x.equ();
                    let (xl, xr) = (self.term(&xe.l)?.1, self.term(&xe.r)?.1);
                    instance(&xr, &xl, &l, &r).map_err(|m| format!("symmetry step {} = {} from premise {} = {}: {m}", show(&l), show(&r), show(&xl), show(&xr)))?;
                    stack.push(x.clone());
                }
                Proof::Transitivity(TransitivityProof(a, b)) => {
                    self.kinds[2] += 1;
                    let (ae, be) = (a.equ(), b.equ());
                    let (al, ar, bl, br) = (self.term(&ae.l)?.1, self.term(&ae.r)?.1, self.term(&be.l)?.1, self.term(&be.r)?.1);
                    transitivity(&al, &ar, &bl, &br, &l, &r).map_err(|m| format!("transitivity step {} = {} from {} = {} and {} = {}: {m}", show(&l), show(&r), show(&al), show(&ar), show(&bl), show(&br)))?;
                    stack.push(a.clone());
                    stack.push(b.clone());
                }
                Proof::Congruence(CongruenceProof(ps)) => {
                    self.kinds[3] += 1;
                    if l.op != r.op || l.pay != r.pay || l.kids.len() != r.kids.len() || l.slots != r.slots {
                        return Err(format!("congruence step between different operators / directly held slots: {} = {}", show(&l), show(&r)));
                    }
                    if ps.len() != l.kids.len() {
                        return Err(format!("congruence step with {} premises for {} children", ps.len(), l.kids.len()));
                    }
                    for (i, q) in ps.iter().enumerate() {
                        if l.kids[i].0.len() != r.kids[i].0.len() {
                            return Err("congruence step: binder lists differ".into());
                        }
                        let (kl, kr) = (open_kid(&l, i), open_kid(&r, i));
                        let qe = q.equ();
                        let (ql, qr) = (self.term(&qe.l)?.1, self.term(&qe.r)?.1);
                        instance(&ql, &qr, &kl, &kr).map_err(|m| format!("congruence step {} = {}: premise {i} ({} = {}) does not prove the children {} = {}: {m}", show(&l), show(&r), show(&ql), show(&qr), show(&kl), show(&kr)))?;
                        stack.push(q.clone());
                    }
                }
                Proof::Explicit(ExplicitProof(j)) => {
                    self.kinds[4] += 1;
                    let Some(j) = j else { return Err(format!("leaf {} = {} without a justification", show(&l), show(&r))) };
                    if let Some(rule) = self.rules.iter().find(|x| x.name == *j) {
                        self.rule_leaves += 1;
                        let (rraw, _) = self.term(&e.r)?;
                        let mut rho = BTreeMap::new();
                        let mut sigma = BTreeMap::new();
                        if !rp_match(&rule.lhs, &lraw, &mut rho, &mut sigma) {
                            return Err(format!("leaf justified by rule {j}: {} is no instance of the left pattern {}", show(&l), rule.lhs_txt));
                        }
                        match &rule.rhs {
                            None => self.exempt_leaves += 1,
                            Some(rhs) => {
                                let mut fresh = 700_000;
                                // names bound on the left side (images of the left pattern's binder slots) have no meaning across the two sides: a
                                // rule such as (lam $x (app ?f (var $x))) => (u ?f) lets ?f carry the bound slot out of its binder, where it is a
                                // free slot of the right side only and may be spelled differently
                                let lhs_bound: BTreeSet<Name> = {
                                    fn binders(p: &RP, out: &mut Vec<String>) {
                                        if let RP::Node { kids, .. } = p {
                                            for (bs, k) in kids {
                                                out.extend(bs.iter().cloned());
                                                binders(k, out);
                                            }
                                        }
                                    }
                                    let mut bs = vec![];
                                    binders(&rule.lhs, &mut bs);
                                    bs.iter().filter_map(|b| rho.get(b).copied()).collect()
                                };
                                let Some(want) = rp_inst(rhs, &mut rho, &sigma, &mut fresh) else { return Err(format!("rule {j}: right pattern uses an unbound variable")) };
                                let same = {
                                    let mut ps = vec![];
                                    let (wc, rc) = (want.canon(), rraw.canon());
                                    if !pairs(&wc, &rc, &mut ps) {
                                        false
                                    } else {
                                        let mut th = Theta::default();
                                        let fixed: BTreeSet<Name> = wc.fv().into_iter().filter(|n| !lhs_bound.contains(n)).collect();
                                        ps.iter().all(|(x, y)| if lhs_bound.contains(x) { th.bind(*x, *y) && !fixed.contains(y) } else { x == y }) && th.injective_on(&wc.fv())
                                    }
                                };
                                if !same {
                                    return Err(format!("leaf justified by rule {j}: the right side is {} but the instantiated right pattern {} is {}", show(&r), rule.rhs_txt, show(&want.canon())));
                                }
                            }
                        }
                    } else {
                        let cands: Vec<&(Tm, Tm, String)> = self.asserted.iter().filter(|x| x.2 == *j).collect();
                        if cands.is_empty() {
                            return Err(format!("leaf {} = {} carries the justification `{j}`, which the user never gave", show(&l), show(&r)));
                        }
                        let mut last = String::new();
                        let ok = cands.iter().any(|(a, b, _)| match instance(a, b, &l, &r) {
                            Ok(()) => true,
                            Err(m) => {
                                last = m;
                                false
                            }
                        });
                        if !ok {
                            return Err(format!("leaf {} = {} justified by `{j}` is no instance of the equation asserted with that justification ({} = {}): {last}", show(&l), show(&r), show(&cands[0].0), show(&cands[0].1)));
                        }
                    }
                }
            }
        }
        Ok(())
    }
}

#[cfg(feature = "explanations")]
pub fn run_case(rng: &mut Rng, profile: &str) -> CaseOut {
    let mut out = CaseOut::default();
    let lang = &LSYM;
    let ns = rng.range(2, 4);
    let ops: Vec<&'static str> = match profile {
        "deep" => vec!["f", "g", "k", "h", "var", "c", "d", "u", "w", "app", "pair", "lam", "sum", "let", "idx", "bb", "sb", "bsl", "ite"],
        _ => vec!["f", "g", "h", "k", "q", "var", "c", "d", "u", "app", "lam", "sum", "bb"],
    };
    let cfg = GenCfg { lang, ops, ns, max_depth: if profile == "deep" { 3 } else { 2 }, max_names: 4, shadow: false };
    let h = gen_history(rng, &cfg, 7, 6);
    let rule_texts: Vec<(&str, &str, &str)> = vec![
        ("app-comm", "(app ?a ?b)", "(app ?b ?a)"),
        ("pair-swap", "(pair ?a ?b)", "(pair ?b ?a)"),
        ("f-comm", "(f $x $y)", "(f $y $x)"),
        ("h-rot", "(h $x $y $z)", "(h $y $z $x)"),
        ("k-drop", "(k $x $y)", "(g $x)"),
        ("u-elim", "(u (u ?a))", "?a"),
        ("w-intro", "(w ?a)", "(u (w ?a))"),
        ("let-elim", "(let $x ?b ?e)", "(app (lam $x ?b) ?e)"),
        ("eta-ish", "(lam $x (app ?f (var $x)))", "(u ?f)"),
        ("beta", "(app (lam $x ?b) ?t)", "?b[(var $x) := ?t]"),
        ("lam-u", "(lam $x (u ?b))", "(u (lam $x ?b))"),
    ];
    let with_rules = rng.chance(2, 3);
    let mut rules: Vec<RuleT> = vec![];
    if with_rules {
        for (n, l, r) in &rule_texts {
            if rng.chance(1, 2) {
                rules.push(RuleT::new(n, l, r));
            }
        }
    }
    let mut log = vec![];
    let semantic_only: Vec<bool> = (0..h.terms.len()).map(|_| rng.chance(1, 3)).collect();
    let mut eg: EGraph<LSym> = EGraph::default();
    let mut ids: BTreeMap<usize, AppliedId> = BTreeMap::new();
    let mut asserted_raw: Vec<(AppliedId, AppliedId, String)> = vec![];
    let mut k = 0;
    let r = guard(|| {
        for op in &h.ops {
            match op {
                HOp::Add(i) => {
                    // a third of the terms is inserted semantically only: their syntactic classes come into being when they are explained
                    if semantic_only[*i] {
                        log.push(format!("add_expr {}", h.terms[*i].text(lang, &pname)));
                        ids.insert(*i, eg.add_expr(to_rec::<LSym>(lang, &h.terms[*i])));
                    } else {
                        log.push(format!("add_syn_expr {}", h.terms[*i].text(lang, &pname)));
                        ids.insert(*i, eg.add_syn_expr(to_rec::<LSym>(lang, &h.terms[*i])));
                    }
                }
                HOp::Union(a, b) => {
                    for t in [a, b] {
                        if !ids.contains_key(t) {
                            if semantic_only[*t] {
                                log.push(format!("add_expr {}", h.terms[*t].text(lang, &pname)));
                                let id = eg.add_expr(to_rec::<LSym>(lang, &h.terms[*t]));
                                ids.insert(*t, id);
                            } else {
                                log.push(format!("add_syn_expr {}", h.terms[*t].text(lang, &pname)));
                                let id = eg.add_syn_expr(to_rec::<LSym>(lang, &h.terms[*t]));
                                ids.insert(*t, id);
                            }
                        }
                    }
                    let j = format!("u{k}");
                    k += 1;
                    log.push(format!("union_justified {} = {} by {j}", h.terms[*a].text(lang, &pname), h.terms[*b].text(lang, &pname)));
                    let (x, y) = (ids[a].clone(), ids[b].clone());
                    asserted_raw.push((x.clone(), y.clone(), j.clone()));
                    eg.union_justified(&x, &y, Some(j));
                }
            }
        }
        if !rules.is_empty() && eg.total_number_of_nodes() < 60 {
            for _ in 0..rng.range(1, 2) {
                if eg.total_number_of_nodes() < 80 {
                    log.push(format!("apply_rewrites {:?}", rules.iter().map(|r| format!("{}: {} => {}", r.name, r.lhs_txt, r.rhs_txt)).collect::<Vec<_>>()));
                    let rws: Vec<Rewrite<LSym>> = rules.iter().map(|r| Rewrite::new(&r.name, &r.lhs_txt, &r.rhs_txt)).collect();
                    apply_rewrites(&mut eg, &rws);
                }
            }
        }
    });
    let cj = J::obj(vec![("log", J::arr_s(&log))]);
    if let Err(p) = r {
        // with explanations enabled, building the e-graph must not panic either (the proofs are built along the way)
        out.fail(Fail::panic("panic-while-building", &p, "history with explanations enabled", cj));
        return out;
    }
    // the equations the user asserted, as terms, rendered at assertion handles (syn terms never change)
    let mut asserted: Vec<(Tm, Tm, String)> = vec![];
    {
        let mut ck = Checker::new(&eg, &[], &[]);
        // the asserted equation is between the syntactic terms of the two handles' classes; a handle obtained by semantic insertion
        // may lack the redundant arguments of its class: they are completed with new names (what union_justified does internally)
        let syn_text = |a: &AppliedId| -> String {
            let mut a = a.clone();
            for _ in 0..32 {
                match guard(|| eg.get_syn_expr(&a).to_string()) {
                    Ok(t) => return t,
                    Err(p) => {
                        // "SlotMap::index($f11): index missing!" names the class slot that has no argument yet
                        let Some(name) = p.msg.split("index($").nth(1).and_then(|x| x.split(')').next()) else { break };
                        a.m.insert(Slot::named(name), Slot::fresh());
                    }
                }
            }
            format!("<unrenderable {a:?}>")
        };
        for (a, b, j) in &asserted_raw {
            let sa = syn_text(a);
            let sb = syn_text(b);
            asserted.push((ck.user_term(&sa).canon(), ck.user_term(&sb).canon(), j.clone()));
        }
    }
    // queries: all pairs of inserted terms the e-graph reports equal
    let idx: Vec<usize> = ids.keys().copied().collect();
    let mut pairs_q = vec![];
    for (x, &a) in idx.iter().enumerate() {
        for &b in idx.iter().skip(x + 1) {
            if eg.eq(&ids[&a], &ids[&b]) {
                pairs_q.push((a, b));
            }
        }
    }
    rng.shuffle(&mut pairs_q);
    pairs_q.truncate(8);
    // the queried terms: inserted terms in either orientation, and terms that were never inserted as such: an inserted term with a
    // closed subterm replaced by a term that was united with it (represented, equal, but without a syntactic class of its own)
    let mut queries: Vec<(Tm, Tm)> = vec![];
    for (a, b) in pairs_q {
        if rng.chance(1, 2) {
            queries.push((h.terms[a].clone(), h.terms[b].clone()));
        } else {
            queries.push((h.terms[b].clone(), h.terms[a].clone()));
        }
    }
    for (a, b, _) in asserted_raw.iter().take(4) {
        let (ia, ib) = (ids.iter().find(|(_, v)| *v == a).map(|x| *x.0), ids.iter().find(|(_, v)| *v == b).map(|x| *x.0));
        if let (Some(ia), Some(ib)) = (ia, ib) {
            for (&k, _) in ids.iter() {
                if k == ia || k == ib {
                    continue;
                }
                fn repl(t: &Tm, from: &Tm, to: &Tm, done: &mut bool, bound: &mut Vec<Name>) -> Tm {
                    if !*done && t.canon() == from.canon() && t.fv().iter().all(|n| !bound.contains(n)) && to.fv().iter().all(|n| !bound.contains(n)) {
                        *done = true;
                        return to.clone();
                    }
                    let mut kids = vec![];
                    for (bs, kk) in &t.kids {
                        let n = bound.len();
                        bound.extend(bs.iter().copied());
                        kids.push((bs.clone(), repl(kk, from, to, done, bound)));
                        bound.truncate(n);
                    }
                    Tm { op: t.op, slots: t.slots.clone(), kids, pay: t.pay.clone() }
                }
                let mut done = false;
                let t2 = repl(&h.terms[k], &h.terms[ia], &h.terms[ib], &mut done, &mut vec![]);
                if done && t2.canon() != h.terms[k].canon() && queries.len() < 12 {
                    // half of the never-inserted terms are written as alpha variants whose bound names sort the other way round
                    let t2 = if rng.chance(1, 2) { let mut next = crate::tm::NUM_BASE + 400; t2.alpha_variant(&mut next) } else { t2 };
                    if rng.chance(1, 2) {
                        queries.push((h.terms[k].clone(), t2));
                    } else {
                        queries.push((t2, h.terms[k].clone()));
                    }
                    out.inc("queries_with_uninserted_term");
                }
            }
        }
    }
    let mut nontrivial = false;
    for (qa, qb) in queries {
        let (ta, tb) = (qa.text(lang, &pname), qb.text(lang, &pname));
        let (ra, rb) = (to_rec::<LSym>(lang, &qa), to_rec::<LSym>(lang, &qb));
        // only equal terms can be explained (the swapped-in variants are equal by congruence; checked through the public API)
        let eq_now = match (lookup_rec_expr(&ra, &eg), lookup_rec_expr(&rb, &eg)) {
            (Some(x), Some(y)) => eg.eq(&x, &y),
            _ => false,
        };
        if !eq_now {
            continue;
        }
        let p = match guard(|| eg.explain_equivalence(ra.clone(), rb.clone())) {
            Ok(p) => p,
            Err(pi) => {
                out.fail(Fail::panic("explain-panicked", &pi, &format!("explain_equivalence({ta}, {tb}) although the terms are equal"), cj.clone()));
                return out;
            }
        };
        out.inc("proofs");
        let mut ck = Checker::new(&eg, &asserted, &rules);
        let res = guard(|| -> Result<(), String> {
            // conclusion: exactly the queried equation up to an injective renaming
            let e = p.equ();
            let (cl, cr) = (ck.term(&e.l)?.1, ck.term(&e.r)?.1);
            let (ua, ub) = (ck.user_term(&ta).canon(), ck.user_term(&tb).canon());
            let (mut p1, mut p2) = (vec![], vec![]);
            if !pairs(&cl, &ua, &mut p1) || !pairs(&cr, &ub, &mut p2) {
                return Err(format!("CONCLUSION the proof concludes {} = {}, the query was {ta} = {tb}", cl.text(lang, &pname), cr.text(lang, &pname)));
            }
            let mut th = Theta::default();
            for (x, y) in p1.iter().chain(p2.iter()) {
                if !th.bind(*x, *y) {
                    return Err(format!("CONCLUSION {} = {} is not a renaming of the query {ta} = {tb}", cl.text(lang, &pname), cr.text(lang, &pname)));
                }
            }
            let all: BTreeSet<Name> = cl.fv().union(&cr.fv()).copied().collect();
            if !th.injective_on(&all) {
                return Err(format!("CONCLUSION {} = {} identifies slots that the query {ta} = {tb} keeps apart", cl.text(lang, &pname), cr.text(lang, &pname)));
            }
            ck.check(&p)
        });
        match res {
            Ok(Ok(())) => {}
            Ok(Err(m)) => {
                let sig = if m.starts_with("CONCLUSION") { "conclusion" } else { m.split_whitespace().next().unwrap_or("step") }.to_string();
                out.fail(Fail::new("invalid-proof", sig, format!("explain_equivalence({ta}, {tb}): {m}"), cj.clone()));
                return out;
            }
            Err(pi) => {
                out.fail(Fail::check_panic(&pi, &format!("re-checking the proof of {ta} = {tb}"), cj.clone()));
                return out;
            }
        }
        out.add("proof_nodes", ck.kinds.iter().sum());
        out.add("steps_reflexivity", ck.kinds[0]);
        out.add("steps_symmetry", ck.kinds[1]);
        out.add("steps_transitivity", ck.kinds[2]);
        out.add("steps_congruence", ck.kinds[3]);
        out.add("leaves_explicit", ck.kinds[4]);
        out.add("leaves_by_rule", ck.rule_leaves);
        out.add("leaves_exempt_computed_rhs", ck.exempt_leaves);
        if ck.kinds[3] >= 1 || ck.kinds[4] >= 2 {
            nontrivial = true;
        }
        // the textual rendering must work as well
        if let Err(pi) = guard(|| p.to_string(&eg)) {
            out.fail(Fail::panic("to_string-panicked", &pi, "ProvenEqRaw::to_string", cj.clone()));
            return out;
        }
    }
    // the built-in consistency check also validates stored proofs
    if let Err(pi) = guard(|| eg.check()) {
        out.fail(Fail::panic("check-panicked", &pi, "EGraph::check with explanations", cj.clone()));
        return out;
    }
    out.inc("histories");
    if nontrivial {
        let mut hsh = 0;
        for l in &log {
            hsh = Rng::mix(hsh, crate::rng::fnv(l));
        }
        out.nontrivial = Some(hsh);
    }
    out.sample = Some(J::obj(vec![("mode", J::s(profile)), ("log", J::arr_s(&log))]));
    out
}

#[cfg(feature = "explanations")]
pub fn run(args: &Args, rep: &mut Rep) {
    let profile = args.param_s("profile", "mix");
    drive(args, rep, move |rng, _| {
        let p = if profile == "mix" { if rng.chance(1, 2) { "deep" } else { "flat" } } else if profile == "deep" { "deep" } else { "flat" };
        run_case(rng, p)
    });
}
