//! C06 — extraction returns a cheapest term of the requested class.
use crate::core::*;
use crate::gen::*;
use crate::json::J;
use crate::langs::*;
use crate::props::c08::{random_bijection, sym_rules};
use crate::rng::Rng;
use crate::sym::*;
use crate::tm::*;
use slotted_egraphs::*;
use std::collections::{BTreeMap, BTreeSet, HashMap};

/// 1 + sum of 2 * child: strictly monotone, prefers shallow terms
pub struct DepthWeighted;
impl CostFunction<LSym> for DepthWeighted {
    type Cost = u64;
    fn cost<C>(&self, enode: &LSym, costs: C) -> u64
    where
        C: Fn(Id) -> u64,
    {
        let mut s: u64 = 1;
        for x in enode.applied_id_occurrences() {
            s = s.saturating_add(costs(x.id).saturating_mul(2));
        }
        s
    }
}

/// per-operator weights: strictly monotone
pub struct OpWeighted;
fn op_weight(n: &LSym) -> u64 {
    match n {
        LSym::F2(..) => 7,
        LSym::G1(..) => 3,
        LSym::H3(..) => 2,
        LSym::K2(..) => 5,
        LSym::Q4(..) => 1,
        LSym::Var(..) => 4,
        LSym::C() => 9,
        LSym::D() => 2,
        LSym::E() => 6,
        LSym::U(..) => 1,
        LSym::W(..) => 8,
        LSym::App(..) => 3,
        LSym::Pair(..) => 2,
        LSym::Lam(..) => 5,
        LSym::Sum(..) => 1,
        LSym::Let(..) => 4,
        LSym::BB(..) => 2,
        LSym::Idx(..) => 6,
        _ => 3,
    }
}
impl CostFunction<LSym> for OpWeighted {
    type Cost = u64;
    fn cost<C>(&self, enode: &LSym, costs: C) -> u64
    where
        C: Fn(Id) -> u64,
    {
        let mut s: u64 = op_weight(enode);
        for x in enode.applied_id_occurrences() {
            s = s.saturating_add(costs(x.id));
        }
        s
    }
}

/// own least fix-point over eg.enodes (Bellman-Ford), independent of the crate's extractor
fn own_minimum<CF: CostFunction<LSym, Cost = u64>>(eg: &EGraph<LSym>, cf: &CF) -> HashMap<Id, u64> {
    let mut best: HashMap<Id, u64> = HashMap::new();
    let ids = eg.ids();
    let nodes: Vec<(Id, Vec<LSym>)> = ids.iter().map(|i| (*i, eg.enodes(*i).into_iter().collect())).collect();
    loop {
        let mut changed = false;
        for (i, ns) in &nodes {
            for n in ns {
                if n.applied_id_occurrences().iter().all(|c| best.contains_key(&c.id)) {
                    let c = cf.cost(n, |j| best[&j]);
                    if best.get(i).map(|o| c < *o).unwrap_or(true) {
                        best.insert(*i, c);
                        changed = true;
                    }
                }
            }
        }
        if !changed {
            break;
        }
    }
    best
}

fn all_visible_slots(eg: &EGraph<LSym>) -> BTreeSet<String> {
    let mut out = BTreeSet::new();
    for i in eg.ids() {
        for s in eg.slots(i).iter() {
            out.insert(s.to_string());
        }
        for n in eg.enodes(i) {
            for s in n.all_slot_occurrences() {
                out.insert(s.to_string());
            }
        }
    }
    out
}

fn check_cf<CF: CostFunction<LSym, Cost = u64>>(eg: &EGraph<LSym>, cf: CF, cf2: CF, name: &'static str, queries: &[AppliedId], rng: &mut Rng, out: &mut CaseOut, cj: &J, user_names: &BTreeSet<String>) -> bool {
    let own = own_minimum(eg, &cf);
    let ex = match guard(|| Extractor::<LSym, CF>::new(eg, cf2)) {
        Ok(e) => e,
        Err(p) => {
            out.fail(Fail::panic("panic-in-extractor-new", &p, &format!("Extractor::new with {name}"), cj.clone()));
            return false;
        }
    };
    // slots that exist so far: everything visible in the e-graph, every user name, and every slot an earlier extraction returned
    // (a slot that was handed out once is not brand-new the second time)
    let mut known: BTreeSet<String> = all_visible_slots(eg).union(user_names).cloned().collect();
    let mut n_classes_with_choice = 0;
    let mut work: Vec<(AppliedId, bool)> = queries.iter().rev().map(|q| (q.clone(), true)).collect();
    while let Some((q, may_follow_up)) = work.pop() {
        let q = &q;
        let mut extra_slots: Vec<Slot> = vec![];
        let fq = eg.find_applied_id(q);
        let Some(own_best) = own.get(&fq.id) else {
            // no finite term in this class by the own computation: nothing to demand
            out.inc("classes_without_finite_term");
            continue;
        };
        out.inc("extractions");
        let r = guard(|| -> Result<(), (String, String)> {
            let best = ex.get_best_cost::<()>(&fq);
            if best != *own_best {
                return Err(("best-cost-not-minimal".into(), format!("[{name}] get_best_cost({fq:?}) = {best}, own least fix-point = {own_best}")));
            }
            let t = ex.extract(q, eg);
            let rc = cf.cost_rec(&t);
            if rc != best {
                return Err(("cost-rec-differs".into(), format!("[{name}] extract({q:?}) = {t} has cost_rec {rc}, reported best cost {best}")));
            }
            match lookup_rec_expr(&t, eg) {
                None => return Err(("result-not-represented".into(), format!("[{name}] extract({q:?}) = {t} cannot be looked up"))),
                Some(b) => {
                    if !eg.eq(&b, q) {
                        return Err(("result-in-other-invocation".into(), format!("[{name}] extract({q:?}) = {t} looks up to {b:?}, which is not equal to the query")));
                    }
                }
            }
            // free slots: arguments of the query or brand-new
            let mut it = Interner::new(5000);
            let txt = t.to_string();
            let tm = parse_tm(&LSYM, &txt, &mut |s| it.get(s)).map_err(|e| ("result-unreadable".to_string(), format!("{txt}: {e}")))?;
            let rev: BTreeMap<Name, String> = it.map.iter().map(|(k, v)| (*v, format!("${k}"))).collect();
            let args: BTreeSet<String> = q.m.values().iter().map(|s| s.to_string()).collect();
            for n in tm.fv() {
                let nm = &rev[&n];
                if !args.contains(nm) && known.contains(nm) {
                    return Err(("free-slot-neither-argument-nor-new".into(), format!("[{name}] extract({q:?}) = {txt} has free slot {nm}, which is no argument of the query and not a new slot (it is visible in the e-graph, a user name, or was returned by an earlier extraction)")));
                }
                if !args.contains(nm) {
                    extra_slots.push(Slot::named(&nm[1..]));
                }
            }
            Ok(())
        });
        for z in &extra_slots {
            known.insert(z.to_string());
        }
        // follow-up query: one argument of the query renamed onto a slot that an extraction invented
        if may_follow_up && !extra_slots.is_empty() && !q.m.is_empty() {
            let z = extra_slots[0];
            if !q.m.values().contains(&z) {
                let keys: Vec<Slot> = q.m.keys().iter().copied().collect();
                let k = keys[rng.below(keys.len())];
                let mut m2 = q.m.clone();
                m2.insert(k, z);
                out.inc("follow_up_queries_onto_invented_slot");
                work.push((AppliedId::new(q.id, m2), false));
            }
        }
        match r {
            Ok(Ok(())) => {}
            Ok(Err((sig, d))) => {
                out.fail(Fail::new("extraction", format!("{name}/{sig}"), d, cj.clone()));
                return false;
            }
            Err(p) => {
                out.fail(Fail::panic("panic-in-extract", &p, &format!("[{name}] extract({q:?})"), cj.clone()));
                return false;
            }
        }
        let costs: BTreeSet<u64> = eg.enodes(fq.id).iter().filter(|n| n.applied_id_occurrences().iter().all(|c| own.contains_key(&c.id))).map(|n| cf.cost(n, |j| own[&j])).collect();
        if costs.len() >= 2 {
            n_classes_with_choice += 1;
        }
    }
    out.add("queries_with_cost_choice", n_classes_with_choice);
    true
}

pub fn run_case(rng: &mut Rng) -> CaseOut {
    let mut out = CaseOut::default();
    let lang = &LSYM;
    let ns = rng.range(2, 3);
    let ops: Vec<&'static str> = vec!["f", "g", "h", "k", "var", "c", "d", "e", "u", "w", "app", "pair", "lam", "sum", "let", "idx", "bb", "ite", "sb", "bsl"];
    let cfg = GenCfg { lang, ops, ns, max_depth: 2, max_names: 4, shadow: rng.chance(1, 3) };
    let mut h = gen_history(rng, &cfg, 6, 5);
    // cost race in a sparsely populated e-graph: few leaves, a wide or deep "bystander" term over one leaf (the only other entry of the
    // extractor's work list for a while), and a class with two to four members of different cost over another leaf that all become
    // ready at the same moment; parents on top of the race class inherit whatever it was finalised with. Insertion order is random.
    if rng.chance(1, 4) {
        out.inc("cost_race_egraphs");
        let leaf = |rng: &mut Rng| -> Tm {
            match rng.below(5) {
                0 => Tm::leaf("c", vec![]),
                1 => Tm::leaf("d", vec![]),
                2 => Tm::leaf("e", vec![]),
                3 => Tm::leaf("var", vec![0]),
                _ => Tm::leaf("g", vec![1]),
            }
        };
        let un = |op: &'static str, a: &Tm| Tm::node(op, vec![], vec![(vec![], a.clone())]);
        let bin = |op: &'static str, a: &Tm, b: &Tm| Tm::node(op, vec![], vec![(vec![], a.clone()), (vec![], b.clone())]);
        let ite = |a: &Tm, b: &Tm, c: &Tm| Tm::node("ite", vec![], vec![(vec![], a.clone()), (vec![], b.clone()), (vec![], c.clone())]);
        let member = |rng: &mut Rng, a: &Tm| -> Tm {
            match rng.below(7) {
                0 => un("u", a),
                1 => un("w", a),
                2 => bin("app", a, a),
                3 => bin("pair", a, a),
                4 => ite(a, a, a),
                5 => un("u", &un("w", a)),
                _ => bin("app", &un("u", a), a),
            }
        };
        let mut terms: Vec<Tm> = vec![];
        let mut unions: Vec<(usize, usize)> = vec![];
        let a = leaf(rng);
        for _ in 0..rng.below(3) {
            let b = leaf(rng);
            let by = match rng.below(4) {
                0 => ite(&b, &b, &b),
                1 => bin("app", &bin("app", &b, &b), &bin("pair", &b, &b)),
                2 => ite(&un("u", &b), &b, &un("w", &b)),
                _ => un("u", &un("u", &un("u", &un("w", &b)))),
            };
            terms.push(by);
        }
        let base = terms.len();
        for _ in 0..rng.range(2, 4) {
            terms.push(member(rng, &a));
        }
        for i in base + 1..terms.len() {
            unions.push((base, i));
        }
        let race = terms[base].clone();
        for _ in 0..rng.below(3) {
            terms.push(member(rng, &race));
        }
        let mut order: Vec<usize> = (0..terms.len()).collect();
        rng.shuffle(&mut order);
        let mut ops: Vec<HOp> = order.into_iter().map(HOp::Add).collect();
        rng.shuffle(&mut unions);
        ops.extend(unions.into_iter().map(|(x, y)| HOp::Union(x, y)));
        if rng.chance(1, 2) {
            // on its own; otherwise on top of the generated history (a busier work list)
            h = History { terms, ops, ns: cfg.ns, families: vec!["cost-race"] };
        } else {
            let off = h.terms.len();
            h.terms.extend(terms);
            h.ops.extend(ops.into_iter().map(|o| match o { HOp::Add(i) => HOp::Add(i + off), HOp::Union(x, y) => HOp::Union(x + off, y + off) }));
        }
    }
    // nodes whose children repeat a class at adjacent and at non-adjacent positions (only representative of their class,
    // or the cheapest one after a union with something bigger)
    if rng.chance(1, 3) && !h.terms.is_empty() {
        for _ in 0..rng.range(1, 2) {
            let a = h.terms[rng.below(h.terms.len())].clone();
            let b = h.terms[rng.below(h.terms.len())].clone();
            let t = match rng.below(3) {
                0 => Tm::node("ite", vec![], vec![(vec![], a.clone()), (vec![], b), (vec![], a)]),
                1 => Tm::node("ite", vec![], vec![(vec![], a.clone()), (vec![], a), (vec![], b)]),
                _ => Tm::node("ite", vec![], vec![(vec![], b), (vec![], a.clone()), (vec![], a)]),
            };
            if t.max_names() <= 4 {
                h.terms.push(t.clone());
                h.ops.push(HOp::Add(h.terms.len() - 1));
                if rng.chance(1, 2) {
                    // a costlier member of the same class
                    let big = Tm::node("u", vec![], vec![(vec![], Tm::node("u", vec![], vec![(vec![], Tm::node("w", vec![], vec![(vec![], t)]))]))]);
                    h.terms.push(big);
                    h.ops.push(HOp::Union(h.terms.len() - 2, h.terms.len() - 1));
                }
            }
        }
    }
    let mut eg: EGraph<LSym> = EGraph::default();
    let mut ids: BTreeMap<usize, AppliedId> = BTreeMap::new();
    let mut log = h.text(lang);
    let rules = sym_rules(rng);
    let r = guard(|| {
        for op in &h.ops {
            match op {
                HOp::Add(i) => {
                    let id = eg.add_expr(to_rec::<LSym>(lang, &h.terms[*i]));
                    ids.insert(*i, id);
                }
                HOp::Union(a, b) => {
                    for t in [a, b] {
                        if !ids.contains_key(t) {
                            let id = eg.add_expr(to_rec::<LSym>(lang, &h.terms[*t]));
                            ids.insert(*t, id);
                        }
                    }
                    let (x, y) = (ids[a].clone(), ids[b].clone());
                    eg.union(&x, &y);
                }
            }
        }
        if rng.chance(1, 2) && !rules.is_empty() {
            for _ in 0..rng.range(1, 2) {
                if eg.total_number_of_nodes() < 90 {
                    let k = rng.range(1, rules.len().min(4));
                    log.push(format!("rewrite {:?}", rules[..k].iter().map(|x| x.0.clone()).collect::<Vec<_>>()));
                    let rs: Vec<Rewrite<LSym>> = rules[..k].iter().map(|(d, _)| {
                        let (n, rest) = d.split_once(": ").unwrap();
                        let (l, r) = rest.split_once(" => ").unwrap();
                        Rewrite::new(n, l, r)
                    }).collect();
                    apply_rewrites(&mut eg, &rs);
                }
            }
        }
    });
    if r.is_err() {
        out.inconclusive = Some("history panicked (reported by C02/C08)".into());
        return out;
    }
    let cj = J::obj(vec![("history", J::arr_s(&log))]);
    // queries: every live class under the identity and under a random renaming of its arguments, plus old handles
    let mut queries: Vec<AppliedId> = vec![];
    for i in eg.ids() {
        queries.push(eg.mk_identity_applied_id(i));
        let bij = random_bijection(rng, &eg.slots(i), ns);
        queries.push(AppliedId::new(i, bij));
    }
    for a in ids.values() {
        queries.push(a.clone());
    }
    let user_names: BTreeSet<String> = (0..12).map(|n| pname(n)).collect();
    let mut cyclic = false;
    for i in eg.ids() {
        for n in eg.enodes(i) {
            if n.applied_id_occurrences().iter().any(|c| c.id == i) {
                cyclic = true;
            }
            if n.slots().len() > eg.slots(i).len() {
                out.inc("enodes_with_redundant_slots");
            }
        }
    }
    if cyclic {
        out.inc("egraphs_with_cyclic_class");
    }
    if !check_cf(&eg, AstSize, AstSize, "AstSize", &queries, rng, &mut out, &cj, &user_names) {
        return out;
    }
    if !check_cf(&eg, DepthWeighted, DepthWeighted, "DepthWeighted", &queries, rng, &mut out, &cj, &user_names) {
        return out;
    }
    if !check_cf(&eg, OpWeighted, OpWeighted, "OpWeighted", &queries, rng, &mut out, &cj, &user_names) {
        return out;
    }
    // the convenience functions agree with the Extractor
    if let Some(q) = queries.last() {
        let r = guard(|| {
            let a = ast_size_extract::<LSym, ()>(q, &eg);
            let b = extract::<LSym, (), AstSize>(q, &eg);
            AstSize.cost_rec(&a) == AstSize.cost_rec(&b) && lookup_rec_expr(&a, &eg).map(|x| eg.eq(&x, q)).unwrap_or(false)
        });
        match r {
            Ok(true) => {}
            Ok(false) => out.fail(Fail::new("extraction", "convenience-extract-differs", format!("ast_size_extract / extract on {q:?}"), cj.clone())),
            Err(p) => out.fail(Fail::panic("panic-in-extract", &p, "ast_size_extract", cj.clone())),
        }
    }
    out.inc("egraphs");
    if *out.counters.get("queries_with_cost_choice").unwrap_or(&0) > 0 || cyclic {
        let mut hsh = 0;
        for l in &log {
            hsh = Rng::mix(hsh, crate::rng::fnv(l));
        }
        out.nontrivial = Some(hsh);
    }
    out.sample = Some(J::obj(vec![("mode", J::s("extraction")), ("history", J::arr_s(&log)), ("queries", J::I(queries.len() as i64))]));
    out
}

pub fn run(args: &Args, rep: &mut Rep) {
    drive(args, rep, |rng, _| run_case(rng));
}
