//! C14 on the symbolic language — analysis data as the make/merge fix-point while classes shrink, gain symmetries and die.
//! The arithmetic world of `c14.rs` has one-slot leaves only, so redundancy and symmetry events are rare there; here the shared
//! history generator (permuted copies, redundancy-making unions, self-reference, congruence chains ..) runs on an e-graph that carries
//! a (min size, min depth) analysis whose modify hook inserts a parent over every class of size two.
use crate::core::*;
use crate::gen::*;
use crate::json::J;
use crate::langs::*;
use crate::rng::Rng;
use crate::sym::{handle_invariants, structural_invariants, to_rec};
use slotted_egraphs::*;
use std::collections::{BTreeMap, HashMap};

thread_local! {
    static CALLS: std::cell::Cell<(u64, u64, u64)> = const { std::cell::Cell::new((0, 0, 0)) };
}

#[derive(Default)]
pub struct ASym;
pub type DS = (u64, u32);

fn make_s(get: &dyn Fn(Id) -> DS, n: &LSym) -> DS {
    let kids: Vec<DS> = n.applied_id_occurrences().iter().map(|a| get(a.id)).collect();
    (kids.iter().fold(1u64, |s, k| s.saturating_add(k.0)), 1 + kids.iter().map(|k| k.1).max().unwrap_or(0))
}
fn merge_s(l: DS, r: DS) -> DS {
    (l.0.min(r.0), l.1.min(r.1))
}

impl Analysis<LSym> for ASym {
    type Data = DS;
    fn make(eg: &EGraph<LSym, Self>, enode: &LSym) -> DS {
        CALLS.with(|c| { let mut v = c.get(); v.0 += 1; c.set(v) });
        make_s(&|i| *eg.analysis_data(i), enode)
    }
    fn merge(l: DS, r: DS) -> DS {
        CALLS.with(|c| { let mut v = c.get(); v.1 += 1; c.set(v) });
        merge_s(l, r)
    }
    fn modify(eg: &mut EGraph<LSym, Self>, i: Id) {
        CALLS.with(|c| { let mut v = c.get(); v.2 += 1; c.set(v) });
        // a hook that changes the e-graph it is handed: every class whose smallest term has size two gets a parent `w(class)`
        // (size three, so the hook does not feed itself); in a third of the cases the hook is passive
        if crate::core::case_salt() % 3 != 0 && eg.analysis_data(i).0 == 2 {
            let ident = eg.mk_identity_applied_id(eg.find_applied_id(&eg.mk_identity_applied_id(i)).id);
            let _ = eg.add(LSym::W(ident));
        }
    }
}

/// own least fix-points of size and depth over the live classes, independent of the crate's work lists
fn own_fixpoint(eg: &EGraph<LSym, ASym>) -> HashMap<Id, DS> {
    let mut best: HashMap<Id, DS> = HashMap::new();
    let nodes: Vec<(Id, Vec<LSym>)> = eg.ids().into_iter().map(|i| (i, eg.enodes(i).into_iter().collect())).collect();
    loop {
        let mut ch = false;
        for (i, ns) in &nodes {
            for n in ns {
                let ks: Option<Vec<DS>> = n.applied_id_occurrences().iter().map(|c| best.get(&c.id).copied()).collect();
                if let Some(ks) = ks {
                    let d = (ks.iter().fold(1u64, |s, k| s.saturating_add(k.0)), 1 + ks.iter().map(|k| k.1).max().unwrap_or(0));
                    let new = match best.get(i) {
                        Some(o) => merge_s(*o, d),
                        None => d,
                    };
                    if best.get(i) != Some(&new) {
                        best.insert(*i, new);
                        ch = true;
                    }
                }
            }
        }
        if !ch {
            break;
        }
    }
    best
}

fn check_all(eg: &EGraph<LSym, ASym>, handles: &[AppliedId], out: &mut CaseOut) -> Result<(), (String, String)> {
    let own = own_fixpoint(eg);
    let ex = guard(|| Extractor::<LSym, AstSize>::new(eg, AstSize)).map_err(|p| ("extractor-panicked".to_string(), p.site()))?;
    for i in eg.ids() {
        let data = *eg.analysis_data(i);
        let mut acc: Option<DS> = None;
        for n in eg.enodes(i) {
            let m = make_s(&|c| *eg.analysis_data(c), &n);
            acc = Some(match acc { Some(a) => merge_s(a, m), None => m });
        }
        out.inc("class_checks");
        match acc {
            Some(a) if a == data => {}
            other => return Err(("datum-is-not-join-of-make".into(), format!("class {i:?}: stored datum {data:?}, join of make over its e-nodes with the children's current data {other:?}; e-nodes {:?}", eg.enodes(i)))),
        }
        match own.get(&i) {
            Some(o) if *o == data => {}
            other => return Err(("datum-is-not-least-fixpoint".into(), format!("class {i:?}: stored datum {data:?}, independently computed least fix-point {other:?}"))),
        }
        let ident = eg.mk_identity_applied_id(i);
        let bc = guard(|| ex.get_best_cost::<()>(&ident)).map_err(|p| ("best-cost-panicked".to_string(), p.site()))?;
        if bc != data.0 {
            return Err(("min-size-differs-from-extractor".into(), format!("class {i:?}: min-size datum {} but Extractor<AstSize>::get_best_cost = {bc}", data.0)));
        }
    }
    // equal invocations share one datum, also through handles of merged classes
    for a in handles {
        let da = *eg.analysis_data(a.id);
        let fa = eg.find_applied_id(a);
        out.inc("handle_data_reads");
        if da != *eg.analysis_data(fa.id) {
            return Err(("handle-datum-differs-from-leader".into(), format!("analysis_data({:?}) = {da:?} but its canonical class {:?} carries {:?}", a.id, fa.id, eg.analysis_data(fa.id))));
        }
    }
    if eg.verif_pending_len() != 0 || eg.verif_modify_queue_len() != 0 {
        return Err(("work-lists-not-drained".into(), format!("pending {} modify queue {}", eg.verif_pending_len(), eg.verif_modify_queue_len())));
    }
    Ok(())
}

/// all invocations of `h`'s class obtained by permuting the arguments of `h` (classes with up to three arguments)
fn permuted_invocations(h: &AppliedId) -> Vec<AppliedId> {
    let vals: Vec<Slot> = h.m.values_vec();
    if vals.len() < 2 || vals.len() > 3 {
        return vec![];
    }
    let idx: Vec<Vec<usize>> = if vals.len() == 2 { vec![vec![1, 0]] } else { vec![vec![1, 0, 2], vec![0, 2, 1], vec![2, 1, 0], vec![1, 2, 0], vec![2, 0, 1]] };
    idx.into_iter().map(|p| { let m: SlotMap = vals.iter().enumerate().map(|(i, v)| (*v, vals[p[i]])).collect(); h.apply_slotmap_partial(&m) }).collect()
}

/// C13 with an analysis attached: equalities once observed (between handles, and between a handle and its permuted invocations)
/// must still hold; returns the first lost one
fn recheck(eg: &EGraph<LSym, ASym>, rec: &[(AppliedId, AppliedId, usize)]) -> Option<String> {
    for (a, b, at) in rec {
        if !eg.eq(a, b) {
            return Some(format!("{a:?} = {b:?} held after step {at} and does not hold any more"));
        }
    }
    None
}

fn record(eg: &EGraph<LSym, ASym>, hs: &[AppliedId], step: usize, rec: &mut Vec<(AppliedId, AppliedId, usize)>) {
    if rec.len() > 400 {
        return;
    }
    for (i, a) in hs.iter().enumerate() {
        for v in permuted_invocations(a) {
            if eg.eq(a, &v) && !rec.iter().any(|r| r.0 == *a && r.1 == v) {
                rec.push((a.clone(), v, step));
            }
        }
        for b in &hs[i + 1..] {
            if eg.eq(a, b) && !rec.iter().any(|r| r.0 == *a && r.1 == *b) {
                rec.push((a.clone(), b.clone(), step));
            }
        }
    }
}

pub fn eval(h: &History, sparse: bool, rw_seed: Option<u64>) -> CaseOut {
    let lang = &LSYM;
    let mut out = CaseOut::default();
    let cj = h.json(lang);
    let text = h.text(lang);
    let mut eg: EGraph<LSym, ASym> = EGraph::default();
    let mut ids: BTreeMap<usize, AppliedId> = BTreeMap::new();
    CALLS.with(|c| c.set((0, 0, 0)));
    let p0 = eg.progress();
    let mut prev = (p0.number_of_live_classes, p0.sum_of_slots, p0.sum_of_symmetries, p0.number_of_classes);
    let (mut red, mut sym, mut died) = (0u64, 0u64, 0u64);
    let mut rec: Vec<(AppliedId, AppliedId, usize)> = vec![];
    for (step, op) in h.ops.iter().enumerate() {
        let mut before: Option<(DS, DS)> = None;
        let r = guard(|| match op {
            HOp::Add(i) => {
                let id = eg.add_expr(to_rec::<LSym>(lang, &h.terms[*i]));
                ids.insert(*i, id);
            }
            HOp::Union(a, b) => {
                for t in [a, b] {
                    if !ids.contains_key(t) {
                        let id = eg.add_expr(to_rec::<LSym>(lang, &h.terms[*t]));
                        ids.insert(*t, id);
                    }
                }
                let (x, y) = (ids[a].clone(), ids[b].clone());
                before = Some((*eg.analysis_data(x.id), *eg.analysis_data(y.id)));
                eg.union(&x, &y);
            }
        });
        if let Err(p) = r {
            out.fail(Fail::panic("panic", &p, &format!("step {step}: {}", text[step]), cj.clone()));
            return out;
        }
        out.inc("operations");
        let p = eg.progress();
        let cur = (p.number_of_live_classes, p.sum_of_slots, p.sum_of_symmetries, p.number_of_classes);
        if cur.0 < prev.0 {
            died += 1;
        }
        if cur.3 == prev.3 && cur.0 == prev.0 && cur.1 < prev.1 {
            red += 1;
        }
        if cur.3 == prev.3 && cur.0 == prev.0 && cur.1 == prev.1 && cur.2 > prev.2 {
            sym += 1;
        }
        prev = cur;
        if sparse && step + 1 < h.ops.len() {
            continue;
        }
        let hs: Vec<AppliedId> = ids.values().cloned().collect();
        // a union's result is the join of both sides (and, the data being a least fix-point, never worse than either)
        if let (HOp::Union(a, b), Some((da, db))) = (op, before) {
            let (na, nb) = (*eg.analysis_data(ids[a].id), *eg.analysis_data(ids[b].id));
            out.inc("unions_judged");
            let j = merge_s(da, db);
            if na != nb || na.0 > j.0 || na.1 > j.1 {
                out.fail(Fail::new("analysis", "union-result-is-not-the-join", format!("after step {step} ({}): data before {da:?} / {db:?}, after {na:?} / {nb:?}", text[step]), cj.clone()));
                return out;
            }
        }
        let r = guard(|| check_all(&eg, &hs, &mut out));
        match r {
            Err(p) => {
                out.fail(Fail::panic("panic", &p, &format!("analysis observation after step {step}: {}", text[step]), cj.clone()));
                return out;
            }
            Ok(Err((sig, d))) => {
                out.fail(Fail::new("analysis", sig, format!("after step {step} ({}): {d}", text[step]), cj.clone()));
                return out;
            }
            Ok(Ok(())) => {}
        }
        let (n, bad) = structural_invariants(&eg);
        out.add("invariant_checks", n);
        if let Some((sig, d)) = bad {
            out.fail(Fail::new("inconsistent", sig, format!("after step {step} ({}): {d}", text[step]), cj.clone()));
            return out;
        }
        let (n, bad) = handle_invariants(&eg, &hs);
        out.add("invariant_checks", n);
        if let Some((sig, d)) = bad {
            out.fail(Fail::new("inconsistent", sig, format!("after step {step} ({}): {d}", text[step]), cj.clone()));
            return out;
        }
        match guard(|| recheck(&eg, &rec)) {
            Err(p) => {
                out.fail(Fail::panic("panic", &p, &format!("eq of recorded invocations after step {step}"), cj.clone()));
                return out;
            }
            Ok(Some(d)) => {
                out.fail(Fail::new("equality-lost", "recorded-equality-lost", format!("after step {step} ({}): {d}", text[step]), cj.clone()));
                return out;
            }
            Ok(None) => {}
        }
        out.add("recorded_equalities_rechecked", rec.len() as u64);
        let _ = guard(|| record(&eg, &hs, step, &mut rec));
    }
    // rewriting on top (rules that create redundancy, symmetries and binders by themselves), the analysis still attached
    if let Some(rs) = rw_seed {
        let mut rr = Rng::new(rs);
        let rules = crate::props::c08::sym_rules_n::<ASym>(&mut rr);
        let names: Vec<String> = rules.iter().map(|x| x.0.clone()).collect();
        let rws: Vec<Rewrite<LSym, ASym>> = rules.into_iter().map(|x| x.1).collect();
        for it in 0..2 {
            if eg.total_number_of_nodes() > 120 || rws.is_empty() {
                break;
            }
            if let Err(p) = guard(|| apply_rewrites(&mut eg, &rws)) {
                out.fail(Fail::panic("panic", &p, &format!("rewrite iteration {it} with {names:?} after the history"), cj.clone()));
                return out;
            }
            out.inc("rewrite_iterations");
            let hs: Vec<AppliedId> = ids.values().cloned().collect();
            match guard(|| check_all(&eg, &hs, &mut out)) {
                Err(p) => {
                    out.fail(Fail::panic("panic", &p, &format!("analysis observation after rewrite iteration {it} with {names:?}"), cj.clone()));
                    return out;
                }
                Ok(Err((sig, d))) => {
                    out.fail(Fail::new("analysis", sig, format!("after rewrite iteration {it} with {names:?}: {d}"), cj.clone()));
                    return out;
                }
                Ok(Ok(())) => {}
            }
            let (n, bad) = structural_invariants(&eg);
            out.add("invariant_checks", n);
            if let Some((sig, d)) = bad {
                out.fail(Fail::new("inconsistent", sig, format!("after rewrite iteration {it} with {names:?}: {d}"), cj.clone()));
                return out;
            }
            match guard(|| recheck(&eg, &rec)) {
                Err(p) => {
                    out.fail(Fail::panic("panic", &p, &format!("eq of recorded invocations after rewrite iteration {it}"), cj.clone()));
                    return out;
                }
                Ok(Some(d)) => {
                    out.fail(Fail::new("equality-lost", "recorded-equality-lost", format!("after rewrite iteration {it} with {names:?}: {d}"), cj.clone()));
                    return out;
                }
                Ok(None) => {}
            }
            out.add("recorded_equalities_rechecked", rec.len() as u64);
            let _ = guard(|| record(&eg, &hs, 1000 + it, &mut rec));
        }
    }
    let c = CALLS.with(|c| c.get());
    out.add("make_calls", c.0);
    out.add("merge_calls", c.1);
    out.add("modify_calls", c.2);
    out.add("redundancy_events", red);
    out.add("symmetry_events", sym);
    out.add("class_death_events", died);
    out.inc("symbolic_histories_completed");
    if red + sym > 0 {
        out.nontrivial = Some(h.hash(lang));
    }
    out.sample = Some(J::obj(vec![("mode", J::s("analysis-on-symbolic-language")), ("history", J::arr_s(&text))]));
    out
}

pub fn run_case(rng: &mut Rng, sparse: bool) -> CaseOut {
    let lang = &LSYM;
    let ns = rng.range(2, 4);
    let ops: Vec<&'static str> = if rng.chance(1, 2) { SYM_OPS_ALL.to_vec() } else { SYM_OPS_BASIC.to_vec() };
    let cfg = GenCfg { lang, ops, ns, max_depth: rng.range(0, 2), max_names: 4, shadow: rng.chance(1, 3) };
    let h = gen_history(rng, &cfg, 7, 7);
    let rw_seed = if rng.chance(1, 2) { Some(rng.next()) } else { None };
    let mut out = eval(&h, sparse, rw_seed);
    if let Some(f) = out.fails.first().cloned() {
        let small = shrink_history(&h, &|h2: &History| eval(h2, sparse, rw_seed).fails.iter().any(|g| g.kind == f.kind && g.sig == f.sig));
        if let Some(g) = eval(&small, sparse, rw_seed).fails.into_iter().find(|g| g.kind == f.kind && g.sig == f.sig) {
            out.fails = vec![g];
        }
    }
    out
}

pub fn run(args: &Args, rep: &mut Rep) {
    let sparse = args.param_u("sparse", 0) == 1;
    drive(args, rep, move |rng, _| run_case(rng, sparse));
}
