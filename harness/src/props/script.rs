//! `vworker script lang=sym|arith op...` — run a literal operation list (debugging aid, replay of directed cases).
//! ops: "add <term>", "addsyn <term>", "union i j", "eq i j", "check", "extract i", "lookup <term>", "dump", "explain <t1> == <t2>", "rw <name>: <lhs> => <rhs>"
use crate::core::*;
use crate::langs::*;
use slotted_egraphs::*;

pub fn run_script<L: Language + 'static>(ops: &[String]) -> Result<Vec<String>, String> {
    let mut eg: EGraph<L> = EGraph::default();
    let mut ids: Vec<AppliedId> = vec![];
    let mut log = vec![];
    for op in ops {
        let (cmd, rest) = op.split_once(' ').unwrap_or((op.as_str(), ""));
        let r = guard(|| -> String {
            match cmd {
                "add" => {
                    let id = eg.add_expr(RecExpr::parse(rest).unwrap());
                    ids.push(id.clone());
                    format!("#{} = {:?} slots={:?}", ids.len() - 1, id, eg.slots(id.id))
                }
                "addsyn" => {
                    let id = eg.add_syn_expr(RecExpr::parse(rest).unwrap());
                    ids.push(id.clone());
                    format!("#{} = {:?}", ids.len() - 1, id)
                }
                "union" => {
                    let v: Vec<usize> = rest.split_whitespace().map(|x| x.parse().unwrap()).collect();
                    let (a, b) = (ids[v[0]].clone(), ids[v[1]].clone());
                    format!("{}", eg.union(&a, &b))
                }
                "eq" => {
                    let v: Vec<usize> = rest.split_whitespace().map(|x| x.parse().unwrap()).collect();
                    format!("{}", eg.eq(&ids[v[0]], &ids[v[1]]))
                }
                "check" => {
                    eg.check();
                    "ok".into()
                }
                "extract" => {
                    let i: usize = rest.trim().parse().unwrap();
                    let ex = Extractor::<L, AstSize>::new(&eg, AstSize);
                    format!("{}", ex.extract(&ids[i], &eg))
                }
                "lookup" => format!("{:?}", lookup_rec_expr(&RecExpr::parse(rest).unwrap(), &eg)),
                "dump" => {
                    eg.dump();
                    "".into()
                }
                "find" => {
                    let i: usize = rest.trim().parse().unwrap();
                    format!("{:?}", eg.find_applied_id(&ids[i]))
                }
                "rw" => {
                    let (name, r) = rest.split_once(':').unwrap();
                    let (l, rr) = r.split_once("=>").unwrap();
                    let rw = Rewrite::<L>::new(name.trim(), l.trim(), rr.trim());
                    format!("{}", apply_rewrites(&mut eg, &[rw]))
                }
                "rws" => {
                    // several rules in one call: "rws n1: l1 => r1 | n2: l2 => r2"
                    let rws: Vec<Rewrite<L>> = rest.split(" | ").map(|x| {
                        let (name, r) = x.split_once(':').unwrap();
                        let (l, rr) = r.split_once("=>").unwrap();
                        Rewrite::<L>::new(name.trim(), l.trim(), rr.trim())
                    }).collect();
                    format!("{}", apply_rewrites(&mut eg, &rws))
                }
                "ids" => format!("{:?} nodes={}", eg.ids(), eg.total_number_of_nodes()),
                #[cfg(feature = "explanations")]
                "explain" => {
                    let (a, b) = rest.split_once("==").unwrap();
                    let p = eg.explain_equivalence(RecExpr::parse(a.trim()).unwrap(), RecExpr::parse(b.trim()).unwrap());
                    p.to_string(&eg)
                }
                _ => format!("unknown op {cmd}"),
            }
        });
        match r {
            Ok(s) => log.push(format!("{op} -> {s}")),
            Err(p) => {
                log.push(format!("{op} -> PANIC {}", p.site()));
                return Err(log.join("\n"));
            }
        }
    }
    Ok(log)
}

pub fn main_script(argv: &[String]) {
    let mut lang = "sym";
    let mut ops = vec![];
    for a in argv {
        if let Some(l) = a.strip_prefix("lang=") {
            lang = l;
        } else {
            ops.push(a.clone());
        }
    }
    let r = match lang {
        "arith" => run_script::<LArith>(&ops),
        "pay" => run_script::<LPay>(&ops),
        _ => run_script::<LSym>(&ops),
    };
    match r {
        Ok(l) => println!("{}", l.join("\n")),
        Err(l) => {
            println!("{l}");
            std::process::exit(1)
        }
    }
}
