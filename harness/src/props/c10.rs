//! C10 — class symmetries are exactly the generated permutation group.
//! Oracle: brute-force closure of the generator set on explicit permutation tables.
use crate::core::*;
use crate::json::J;
use crate::langs::*;
use crate::rng::Rng;
use slotted_egraphs::*;
use std::collections::{BTreeSet, VecDeque};

type P = Vec<u8>;

fn compose(a: &P, b: &P) -> P {
    // first a then b
    a.iter().map(|x| b[*x as usize]).collect()
}
fn identity(n: usize) -> P {
    (0..n as u8).collect()
}
pub fn closure(n: usize, gens: &[P]) -> BTreeSet<P> {
    let mut seen: BTreeSet<P> = BTreeSet::new();
    let mut q = VecDeque::new();
    seen.insert(identity(n));
    q.push_back(identity(n));
    while let Some(x) = q.pop_front() {
        for g in gens {
            let y = compose(&x, g);
            if seen.insert(y.clone()) {
                q.push_back(y);
            }
        }
    }
    seen
}
pub fn all_perms(n: usize) -> Vec<P> {
    let mut out = vec![];
    fn rec(n: usize, cur: &mut P, out: &mut Vec<P>) {
        if cur.len() == n {
            out.push(cur.clone());
            return;
        }
        for i in 0..n as u8 {
            if !cur.contains(&i) {
                cur.push(i);
                rec(n, cur, out);
                cur.pop();
            }
        }
    }
    rec(n, &mut vec![], &mut out);
    out
}
fn orbit(n: usize, gens: &[P], s: u8) -> BTreeSet<u8> {
    let _ = n;
    let mut seen = BTreeSet::new();
    seen.insert(s);
    let mut q = vec![s];
    while let Some(x) = q.pop() {
        for g in gens {
            let y = g[x as usize];
            if seen.insert(y) {
                q.push(y);
            }
        }
    }
    seen
}

fn leaf_text(n: usize, p: &P) -> String {
    let op = match n {
        1 => "g",
        2 => "f",
        3 => "h",
        4 => "q",
        5 => "r5",
        _ => "r6",
    };
    let args: Vec<String> = p.iter().map(|i| format!("$s{}", i)).collect();
    format!("({} {})", op, args.join(" "))
}

fn show(gens: &[P]) -> String {
    format!("{:?}", gens)
}

/// e-graph path: assert generators as unions of a leaf with permuted copies; query all n! copies.
fn egraph_path(n: usize, gens: &[P], perms: &[P], order: &[usize], out: &mut CaseOut) -> bool {
    let cj = J::obj(vec![("path", J::s("egraph")), ("n", J::I(n as i64)), ("generators", J::s(show(gens))), ("order", J::s(format!("{order:?}")))]);
    let r = guard(|| -> Result<u64, (String, String)> {
        let mut eg: EGraph<LSym> = EGraph::default();
        let base = eg.add_expr(RecExpr::parse(&leaf_text(n, &identity(n))).unwrap());
        // in every other run a user `w(leaf)` is inserted after the first assertion (inserting a parent enumerates the class's group
        // at that moment), and membership is observed through the user as well at the end
        let with_user = order.first().map(|o| o % 2 == 0).unwrap_or(false) ^ (gens.len() % 2 == 0);
        let mut wbase: Option<AppliedId> = None;
        let mut nq = 0;
        let mut sofar: Vec<P> = vec![];
        for (k, &gi) in order.iter().enumerate() {
            let g = &gens[gi];
            let c = eg.add_expr(RecExpr::parse(&leaf_text(n, g)).unwrap());
            eg.union(&base, &c);
            sofar.push(g.clone());
            if with_user && k == 0 {
                wbase = Some(eg.add_expr(RecExpr::parse(&format!("(w {})", leaf_text(n, &identity(n)))).unwrap()));
                // the group as it stands after the first assertion, observed before it grows
                let w1 = closure(n, &sofar);
                for s in perms {
                    let c = lookup_rec_expr(&RecExpr::<LSym>::parse(&leaf_text(n, s)).unwrap(), &eg).ok_or(("lookup-none".to_string(), format!("permuted copy {} not represented", leaf_text(n, s))))?;
                    nq += 1;
                    if eg.eq(&base, &c) != w1.contains(s) {
                        return Err(("membership-intermediate".into(), format!("after asserting only {} on {n} slots: eq(leaf, {}) = {} but membership is {}", show(&sofar), leaf_text(n, s), eg.eq(&base, &c), w1.contains(s))));
                    }
                }
            }
        }
        let want = closure(n, gens);
        for s in perms {
            let c = lookup_rec_expr(&RecExpr::<LSym>::parse(&leaf_text(n, s)).unwrap(), &eg).ok_or(("lookup-none".to_string(), format!("permuted copy {} not represented", leaf_text(n, s))))?;
            let got = eg.eq(&base, &c);
            nq += 1;
            if got != want.contains(s) {
                return Err(("membership".into(), format!("generators {} on {n} slots: eq(leaf, {}) = {got} but membership in the generated group ({} elements) is {}", show(gens), leaf_text(n, s), want.len(), want.contains(s))));
            }
            if let Some(wb) = &wbase {
                let wc = lookup_rec_expr(&RecExpr::<LSym>::parse(&format!("(w {})", leaf_text(n, s))).unwrap(), &eg).ok_or(("lookup-none".to_string(), format!("user of the permuted copy {} not represented", leaf_text(n, s))))?;
                nq += 1;
                if eg.eq(wb, &wc) != want.contains(s) {
                    return Err(("membership-through-user".into(), format!("generators {} on {n} slots (user inserted after the first assertion): eq(w(leaf), w({})) = {} but membership in the generated group is {}", show(gens), leaf_text(n, s), eg.eq(wb, &wc), want.contains(s))));
                }
            }
        }
        // the progress measure counts the symmetries
        let p = eg.progress();
        if p.number_of_live_classes == 1 && p.sum_of_symmetries != want.len() {
            return Err(("sum_of_symmetries".into(), format!("generators {}: progress().sum_of_symmetries = {} but |G| = {}", show(gens), p.sum_of_symmetries, want.len())));
        }
        #[cfg(slotted_egraphs_verif)]
        {
            let id = eg.find_applied_id(&base).id;
            if eg.verif_group_count(id) != want.len() {
                return Err(("group-count".into(), format!("generators {}: class group count = {} but |G| = {}", show(gens), eg.verif_group_count(id), want.len())));
            }
        }
        Ok(nq)
    });
    match r {
        Ok(Ok(nq)) => {
            out.add("egraph_membership_queries", nq);
            true
        }
        Ok(Err((sig, d))) => {
            out.fail(Fail::new("group-mismatch", format!("egraph/{sig}"), d, cj));
            false
        }
        Err(p) => {
            out.fail(Fail::panic("panic", &p, &format!("e-graph path, generators {}", show(gens)), cj));
            false
        }
    }
}

#[cfg(slotted_egraphs_verif)]
fn direct_path(n: usize, gens: &[P], perms: &[P], split: usize, out: &mut CaseOut) -> bool {
    let cj = J::obj(vec![("path", J::s("direct")), ("n", J::I(n as i64)), ("generators", J::s(show(gens))), ("incremental_split", J::I(split as i64))]);
    // mixed slot kinds so that slot order != index order
    let r = guard(|| -> Result<u64, (String, String)> {
        let slots: Vec<Slot> = (0..n).map(|i| if i % 2 == 0 { Slot::named(&format!("s{}", n - i)) } else { Slot::numeric((7 * (n - i)) as u32) }).collect();
        let omega: SmallHashSet<Slot> = slots.iter().copied().collect();
        let sm = |p: &P| -> SlotMap { (0..n).map(|i| (slots[i], slots[p[i] as usize])).collect() };
        let unsm = |m: &SlotMap| -> P { (0..n).map(|i| slots.iter().position(|s| *s == m[slots[i]]).unwrap() as u8).collect() };
        let mut nq = 0u64;
        // every observable of the group against the brute-force closure of the generators it has been given so far
        let observe = |g: &VGroup, have: &[P], nq: &mut u64| -> Result<(), (String, String)> {
            let want = closure(n, have);
            for s in perms {
                *nq += 1;
                if g.contains(&sm(s)) != want.contains(s) {
                    return Err(("contains".into(), format!("generators {}: contains({s:?}) = {} but brute force says {}", show(have), g.contains(&sm(s)), want.contains(s))));
                }
            }
            let all = g.all_perms();
            let set: BTreeSet<P> = all.iter().map(&unsm).collect();
            *nq += 3;
            if set.len() != all.len() {
                return Err(("all_perms-duplicates".into(), format!("generators {}: all_perms has {} entries, {} distinct", show(have), all.len(), set.len())));
            }
            if set != want {
                return Err(("all_perms-set".into(), format!("generators {}: all_perms yields {} elements, brute force {}", show(have), set.len(), want.len())));
            }
            if g.count() != want.len() {
                return Err(("count".into(), format!("generators {}: count() = {} but |G| = {}", show(have), g.count(), want.len())));
            }
            for i in 0..n {
                *nq += 1;
                let o: BTreeSet<u8> = g.orbit(slots[i]).iter().map(|s| slots.iter().position(|x| x == s).unwrap() as u8).collect();
                if o != orbit(n, have, i as u8) {
                    return Err(("orbit".into(), format!("generators {}: orbit of slot {i} = {o:?}, brute force {:?}", show(have), orbit(n, have, i as u8))));
                }
            }
            // the generators it reports generate the same group
            let gg: Vec<P> = g.generators().iter().map(&unsm).collect();
            *nq += 1;
            if closure(n, &gg) != want {
                return Err(("generators".into(), format!("generators {}: reported generators {gg:?} generate a different group", show(have))));
            }
            if g.is_trivial() != (want.len() == 1) {
                return Err(("is_trivial".into(), format!("generators {}: is_trivial = {}", show(have), g.is_trivial())));
            }
            Ok(())
        };
        // build incrementally: first `split` generators at construction, the rest one by one, alternately through add_set and add;
        // in every other run the group is observed in full (which enumerates it) before each increment, not only at the end
        let mut g = VGroup::new(&omega, gens[..split].iter().map(&sm).collect());
        let mut have: Vec<P> = gens[..split].to_vec();
        let observe_between = (split + gens.len()) % 2 == 0;
        for (k, x) in gens[split..].iter().enumerate() {
            if observe_between {
                observe(&g, &have, &mut nq).map_err(|(a, b)| (format!("{a}-before-increment"), b))?;
            }
            let before = closure(n, &have).len();
            have.push(x.clone());
            let after = closure(n, &have).len();
            let (via, grew) = if k % 2 == 0 { ("add_set", g.add_set(vec![sm(x)])) } else { ("add", g.add(sm(x))) };
            nq += 1;
            if grew != (after > before) {
                return Err((format!("{via}-growth"), format!("adding {x:?} to <{}>: {via} returned {grew}, but the group size goes {before} -> {after}", show(&have[..have.len() - 1]))));
            }
        }
        observe(&g, gens, &mut nq)?;
        Ok(nq)
    });
    match r {
        Ok(Ok(nq)) => {
            out.add("direct_observations", nq);
            true
        }
        Ok(Err((sig, d))) => {
            out.fail(Fail::new("group-mismatch", format!("direct/{sig}"), d, cj));
            false
        }
        Err(p) => {
            out.fail(Fail::panic("panic", &p, &format!("direct path, generators {}", show(gens)), cj));
            false
        }
    }
}
#[cfg(not(slotted_egraphs_verif))]
fn direct_path(_n: usize, _gens: &[P], _perms: &[P], _split: usize, _out: &mut CaseOut) -> bool {
    true
}

fn one_set(n: usize, gens: &[P], perms: &[P], rng: &mut Rng, out: &mut CaseOut) {
    out.inc("generator_sets");
    let mut order: Vec<usize> = (0..gens.len()).collect();
    if !egraph_path(n, gens, perms, &order, out) {
        return;
    }
    if gens.len() > 1 {
        order.reverse();
        if !egraph_path(n, gens, perms, &order, out) {
            return;
        }
    }
    for split in 0..=gens.len() {
        if !direct_path(n, gens, perms, split, out) {
            return;
        }
    }
    let _ = rng;
    let g = closure(n, gens);
    if g.len() > 1 {
        out.inc("nontrivial_groups");
    }
    if gens.iter().any(|p| compose(p, p) != identity(n)) {
        out.inc("sets_with_non_involution");
    }
}

pub fn run(args: &Args, rep: &mut Rep) {
    let exh_n = args.param_u("exh_n", 3) as usize; // exhaustive up to this many slots (all sets of <= 3 perms)
    let sample4 = args.param_u("sample4", 300); // if exh_n < 4: this many random sets on 4 slots
    let shard = args.shard;
    let nshards = args.nshards;
    let seed = args.seed;
    // ---- exhaustive part
    let o = run_case(Rng::mix(seed, 0xC10), move |rng| {
        let mut out = CaseOut::default();
        let mut idx = 0u64;
        let mut nt = 0u64;
        let mut last = String::new();
        for n in 1..=exh_n {
            let perms = all_perms(n);
            let m = perms.len();
            // all non-empty sets of up to three distinct permutations (identity included as a possible generator)
            for a in 0..m {
                for b in a..m {
                    for c in b..m {
                        // encode sets of size 1 (a=b=c), 2 (a<b=c), 3 (a<b<c); skip a=b<c duplicates
                        if a == b && b < c {
                            continue;
                        }
                        let mut gens = vec![perms[a].clone()];
                        if b > a {
                            gens.push(perms[b].clone());
                        }
                        if c > b {
                            gens.push(perms[c].clone());
                        }
                        let mine = idx % nshards == shard;
                        idx += 1;
                        if !mine {
                            continue;
                        }
                        one_set(n, &gens, &perms, rng, &mut out);
                        if !out.fails.is_empty() {
                            return out;
                        }
                        if closure(n, &gens).len() > 1 {
                            nt += 1;
                        }
                        last = format!("n={n} generators={}", show(&gens));
                    }
                }
            }
        }
        out.add("nt_exact", nt);
        out.sample = Some(J::obj(vec![("mode", J::s("exhaustive")), ("up_to_slots", J::I(exh_n as i64)), ("last_set_in_shard", J::s(last))]));
        out
    });
    rep.absorb(0, o);
    rep.extra.insert("exhaustive_up_to_slots".into(), J::I(exh_n as i64));
    // ---- sampled sets on 4 slots (when not exhaustive there) and random sets on 5 and 6 slots
    let exh = exh_n;
    drive(args, rep, move |rng, _| {
        let mut out = CaseOut::default();
        let n = if exh < 4 && rng.chance(1, 2) { 4 } else { 5 + rng.below(2) };
        let _ = sample4;
        let perms = all_perms(n);
        let k = rng.range(1, 3);
        let mut gens: Vec<P> = vec![];
        for _ in 0..k {
            // bias towards cycles and products (non-involutions)
            let p = match rng.below(4) {
                0 => {
                    let mut p = identity(n);
                    let len = rng.range(2, n);
                    let mut idxs = rng.perm(n);
                    idxs.truncate(len);
                    for i in 0..len {
                        p[idxs[i]] = idxs[(i + 1) % len] as u8;
                    }
                    p
                }
                _ => perms[rng.below(perms.len())].clone(),
            };
            gens.push(p);
        }
        one_set(n, &gens, &perms, rng, &mut out);
        let g = closure(n, &gens);
        if g.len() > 1 {
            out.nontrivial = Some(crate::rng::fnv(&format!("{n}{:?}", { let mut s = gens.clone(); s.sort(); s })));
        }
        out.inc(if n == 4 { "random_sets_4" } else if n == 5 { "random_sets_5" } else { "random_sets_6" });
        out.sample = Some(J::obj(vec![("mode", J::s("random")), ("n", J::I(n as i64)), ("generators", J::s(show(&gens))), ("group_size", J::I(g.len() as i64))]));
        out
    });
}
