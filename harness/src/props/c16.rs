//! C16 — node shapes are canonical modulo renaming; derived Language impls are coherent.
//! Independent node model: a list of fields with explicit scoping; the crate node is built from syntax elements.
use crate::core::*;
use crate::json::J;
use crate::langs::*;
use crate::rng::Rng;
use crate::tm::{Fld, LangSig, OpSig};
use slotted_egraphs::*;
use std::collections::{BTreeMap, BTreeSet, HashMap};

/// model of one e-node: per field the slot names involved
#[derive(Clone, Debug, PartialEq, Eq, Hash, PartialOrd, Ord)]
enum MF {
    S(u32),
    /// binders, child class id, child argument slots (distinct)
    C(Vec<u32>, usize, Vec<u32>),
    /// binders, slot
    X(Vec<u32>, u32),
    P(String),
}
#[derive(Clone, Debug, PartialEq, Eq, Hash, PartialOrd, Ord)]
struct NM {
    op: &'static str,
    fields: Vec<MF>,
}

fn slot(n: u32) -> Slot {
    // hostile mixture of slot kinds; injective
    match n % 3 {
        0 => Slot::numeric(n),
        1 => Slot::named(&format!("v{}", n)),
        _ => Slot::named(&format!("f{}", 1000 + n)), // prints like a fresh slot
    }
}

impl NM {
    /// occurrences in order: (name, is_public)
    fn occurrences(&self) -> Vec<(u32, bool)> {
        let mut out = vec![];
        for f in &self.fields {
            match f {
                MF::S(s) => out.push((*s, true)),
                MF::C(bs, _, args) => {
                    // Bind<Bind<T>>: binder occurrences come first (outermost first), then the body
                    for b in bs {
                        out.push((*b, false));
                    }
                    for a in args {
                        out.push((*a, !bs.contains(a)));
                    }
                }
                MF::X(bs, s) => {
                    for b in bs {
                        out.push((*b, false));
                    }
                    out.push((*s, !bs.contains(s)));
                }
                MF::P(_) => {}
            }
        }
        out
    }
    fn free(&self) -> BTreeSet<u32> {
        self.occurrences().into_iter().filter(|x| x.1).map(|x| x.0).collect()
    }
    /// canonical key: free names numbered by first free occurrence, bound names by binder position; alpha/renaming invariant
    fn key(&self, keep_free: bool) -> String {
        let mut free_no: BTreeMap<u32, usize> = BTreeMap::new();
        let mut counter = 0usize;
        let mut out = format!("{}|", self.op);
        let mut name_free = |s: u32, free_no: &mut BTreeMap<u32, usize>, counter: &mut usize| -> String {
            if keep_free {
                return format!("F{}", s);
            }
            let n = free_no.len();
            let k = *free_no.entry(s).or_insert(n);
            let _ = counter;
            format!("f{}", k)
        };
        for f in &self.fields {
            match f {
                MF::S(s) => out += &format!("S({}) ", name_free(*s, &mut free_no, &mut counter)),
                MF::C(bs, id, args) => {
                    // innermost binder of a name wins
                    let a: Vec<String> = args
                        .iter()
                        .map(|x| match bs.iter().rposition(|b| b == x) {
                            Some(i) => format!("b{}", i),
                            None => name_free(*x, &mut free_no, &mut counter),
                        })
                        .collect();
                    out += &format!("C[{}]({};{}) ", bs.len(), id, a.join(","));
                }
                MF::X(bs, s) => {
                    let a = match bs.iter().rposition(|b| b == s) {
                        Some(i) => format!("b{}", i),
                        None => name_free(*s, &mut free_no, &mut counter),
                    };
                    out += &format!("X[{}]({}) ", bs.len(), a);
                }
                MF::P(p) => out += &format!("P({}) ", p),
            }
        }
        out
    }
    fn elems(&self) -> Vec<SyntaxElem> {
        let mut v = vec![];
        if !self.op.starts_with('#') {
            v.push(SyntaxElem::String(self.op.to_string()));
        }
        for f in &self.fields {
            match f {
                MF::S(s) => v.push(SyntaxElem::Slot(slot(*s))),
                MF::C(bs, id, args) => {
                    for b in bs {
                        v.push(SyntaxElem::Slot(slot(*b)));
                    }
                    let m: SlotMap = args.iter().enumerate().map(|(i, a)| (Slot::numeric(i as u32), slot(*a))).collect();
                    v.push(SyntaxElem::AppliedId(AppliedId::new(Id(*id), m)));
                }
                MF::X(bs, s) => {
                    for b in bs {
                        v.push(SyntaxElem::Slot(slot(*b)));
                    }
                    v.push(SyntaxElem::Slot(slot(*s)));
                }
                MF::P(p) => v.push(SyntaxElem::String(p.clone())),
            }
        }
        v
    }
    fn rename(&self, m: &dyn Fn(u32, bool) -> u32) -> NM {
        // m(name, is_free_occurrence)
        let fields = self
            .fields
            .iter()
            .map(|f| match f {
                MF::S(s) => MF::S(m(*s, true)),
                MF::C(bs, id, args) => MF::C(bs.iter().map(|b| m(*b, false)).collect(), *id, args.iter().map(|a| m(*a, !bs.contains(a))).collect()),
                MF::X(bs, s) => MF::X(bs.iter().map(|b| m(*b, false)).collect(), m(*s, !bs.contains(s))),
                MF::P(p) => MF::P(p.clone()),
            })
            .collect();
        NM { op: self.op, fields }
    }
}

fn from_elems(op: &'static str, sig: &'static [Fld], e: &[SyntaxElem], unslot: &dyn Fn(Slot) -> Option<u32>) -> Option<NM> {
    let mut i = if op.starts_with('#') { 0 } else { 1 };
    let mut fields = vec![];
    for f in sig {
        match f {
            Fld::S => {
                let SyntaxElem::Slot(s) = e.get(i)? else { return None };
                fields.push(MF::S(unslot(*s)?));
                i += 1;
            }
            Fld::C(k) => {
                let mut bs = vec![];
                for _ in 0..*k {
                    let SyntaxElem::Slot(s) = e.get(i)? else { return None };
                    bs.push(unslot(*s)?);
                    i += 1;
                }
                let SyntaxElem::AppliedId(a) = e.get(i)? else { return None };
                let args: Option<Vec<u32>> = a.m.iter().map(|(_, v)| unslot(v)).collect();
                fields.push(MF::C(bs, a.id.0, args?));
                i += 1;
            }
            Fld::X(k) => {
                let mut bs = vec![];
                for _ in 0..*k {
                    let SyntaxElem::Slot(s) = e.get(i)? else { return None };
                    bs.push(unslot(*s)?);
                    i += 1;
                }
                let SyntaxElem::Slot(s) = e.get(i)? else { return None };
                fields.push(MF::X(bs, unslot(*s)?));
                i += 1;
            }
            Fld::P => {
                let SyntaxElem::String(s) = e.get(i)? else { return None };
                fields.push(MF::P(s.clone()));
                i += 1;
            }
        }
    }
    if i != e.len() {
        return None;
    }
    Some(NM { op, fields })
}

fn gen_payload(lang: &str, op: &str, k: usize, r: &mut Rng) -> String {
    match (lang, op) {
        (_, "proj") if k >= 1 => format!("{}", r.below(6)),
        (_, "flag2") if k >= 1 => format!("{}", r.below(6)),
        // payloads are handed over as syntax elements, not as text: any value of the payload type is a legal input (blank characters, symbols with blanks around or inside)
        (_, "ch") => ["a", "Z", "7", "é", " ", "\t", "(", "$"][r.below(8)].to_string(),
        (_, "big") | (_, "neg") => ["-5", "0", "123456789012", "-9223372036854775808"][r.below(4)].to_string(),
        (_, "flag") => ["true", "false"][r.below(2)].to_string(),
        (_, "tag") | (_, "proj") => ["foo", "x1", "bar", " foo", "foo ", "f oo", "", " "][r.below(8)].to_string(),
        (_, "flag2") => ["true", "false"][r.below(2)].to_string(),
        (_, "#sym") => ["abc", "q", "zz9", " abc", "abc ", "a bc"][r.below(6)].to_string(),
        _ => format!("{}", r.below(5)),
    }
}

fn gen_node(lang: &'static LangSig, o: &'static OpSig, r: &mut Rng, alphabet: u32) -> NM {
    let mut fields = vec![];
    for f in o.fields {
        match f {
            Fld::S => fields.push(MF::S(r.below(alphabet as usize) as u32)),
            Fld::C(k) => {
                let mut bs: Vec<u32> = vec![];
                while bs.len() < *k {
                    let b = r.below(alphabet as usize) as u32;
                    if !bs.contains(&b) {
                        bs.push(b);
                    }
                }
                let n = r.below(4.min(alphabet as usize) + 1);
                let mut args: Vec<u32> = vec![];
                while args.len() < n {
                    let a = r.below(alphabet as usize) as u32;
                    if !args.contains(&a) {
                        args.push(a);
                    }
                }
                fields.push(MF::C(bs, r.below(3), args));
            }
            Fld::X(k) => {
                let mut bs: Vec<u32> = vec![];
                while bs.len() < *k {
                    let b = r.below(alphabet as usize) as u32;
                    if !bs.contains(&b) {
                        bs.push(b);
                    }
                }
                fields.push(MF::X(bs, r.below(alphabet as usize) as u32));
            }
            Fld::P => {
                let k = fields.iter().filter(|f| matches!(f, MF::P(_))).count();
                fields.push(MF::P(gen_payload(lang.name, o.name, k, r)))
            }
        }
    }
    NM { op: o.name, fields }
}

struct Tables<L> {
    shape_to_key: HashMap<L, String>,
    key_to_shape: HashMap<String, L>,
}

fn check_node<L: Language + Direct>(lang: &'static LangSig, m: &NM, r: &mut Rng, tabs: &mut Tables<L>, out: &mut CaseOut) -> bool {
    let cj = J::obj(vec![("lang", J::s(lang.name)), ("node", J::s(format!("{m:?}")))]);
    macro_rules! fail {
        ($sig:expr, $($arg:tt)*) => {{
            out.fail(Fail::new("shape-incoherent", format!("{}/{}", lang.name, $sig), format!($($arg)*), cj.clone()));
            return false;
        }};
    }
    let res = guard(|| -> Result<(), (String, String)> {
        macro_rules! bad {
            ($sig:expr, $($arg:tt)*) => { return Err(($sig.to_string(), format!($($arg)*))) };
        }
        let all_names: Vec<u32> = (0..100).collect();
        let unslot = |s: Slot| all_names.iter().copied().find(|n| slot(*n) == s);
        let e = m.elems();
        let Some(n) = L::from_syntax(&e) else { bad!("from_syntax-none", "from_syntax rejects its own syntax {e:?}") };
        // (g') the value from_syntax builds is the value the enum constructor builds, and that value survives to_syntax / from_syntax
        {
            let pay: Vec<&String> = m.fields.iter().filter_map(|f| if let MF::P(p) = f { Some(p) } else { None }).collect();
            let sl: Vec<u32> = m.fields.iter().filter_map(|f| if let MF::S(x) = f { Some(*x) } else { None }).collect();
            let only_ps = m.fields.iter().all(|f| matches!(f, MF::P(_) | MF::S(_)));
            if only_ps && pay.len() <= 1 && sl.len() <= 1 {
                if let Some(d) = L::direct(m.op, pay.first().map(|x| x.as_str()), sl.first().map(|x| slot(*x))) {
                    if d != n {
                        bad!("from_syntax-other-variant", "from_syntax({e:?}) = {n:?}, but the constructor of `{}` builds {d:?}", m.op);
                    }
                    if L::from_syntax(&d.to_syntax()).as_ref() != Some(&d) {
                        bad!("syntax-roundtrip-of-constructed-node", "from_syntax(to_syntax({d:?})) = {:?}", L::from_syntax(&d.to_syntax()));
                    }
                }
            }
        }
        // (g) round trip
        let e2 = n.to_syntax();
        let Some(back) = from_elems(m.op, lang.sig(m.op), &e2, &unslot) else { bad!("to_syntax-shape", "to_syntax gives {e2:?}") };
        if &back != m {
            bad!("to_syntax-differs", "to_syntax gives {back:?}");
        }
        if L::from_syntax(&e2).as_ref() != Some(&n) {
            bad!("syntax-roundtrip", "from_syntax(to_syntax(n)) != n");
        }
        // (e),(f) occurrences
        let occ = m.occurrences();
        let all: Vec<Slot> = occ.iter().map(|x| slot(x.0)).collect();
        let public: Vec<Slot> = occ.iter().filter(|x| x.1).map(|x| slot(x.0)).collect();
        if n.all_slot_occurrences() != all {
            bad!("all_slot_occurrences", "got {:?}, model {:?}", n.all_slot_occurrences(), all);
        }
        if n.public_slot_occurrences() != public {
            bad!("public_slot_occurrences", "got {:?}, model {:?}", n.public_slot_occurrences(), public);
        }
        let mut c = n.clone();
        if c.all_slot_occurrences_mut().into_iter().map(|x| *x).collect::<Vec<_>>() != all {
            bad!("all_slot_occurrences_mut", "mut and immut variants differ");
        }
        let mut c = n.clone();
        if c.public_slot_occurrences_mut().into_iter().map(|x| *x).collect::<Vec<_>>() != public {
            bad!("public_slot_occurrences_mut", "mut and immut variants differ");
        }
        let free: BTreeSet<Slot> = m.free().into_iter().map(slot).collect();
        if n.slots().iter().copied().collect::<BTreeSet<_>>() != free {
            bad!("slots", "slots() = {:?}, model free set {:?}", n.slots(), free);
        }
        let nchild = m.fields.iter().filter(|f| matches!(f, MF::C(..))).count();
        if n.applied_id_occurrences().len() != nchild {
            bad!("applied_id_occurrences", "{} children, model {}", n.applied_id_occurrences().len(), nchild);
        }
        // position-wise partition: every occurrence (identified by its address inside one clone of the node) is public or private,
        // never both; the value lists agree with the model's scoping (a name may be public at one position and private at another:
        // shadowing inside one node is legal input)
        {
            let mut c = n.clone();
            let a: Vec<usize> = c.all_slot_occurrences_mut().into_iter().map(|x| x as *mut Slot as usize).collect();
            let pu: Vec<usize> = c.public_slot_occurrences_mut().into_iter().map(|x| x as *mut Slot as usize).collect();
            let pr: Vec<usize> = c.private_slot_occurrences_mut().into_iter().map(|x| x as *mut Slot as usize).collect();
            let (sa, spu, spr): (BTreeSet<usize>, BTreeSet<usize>, BTreeSet<usize>) = (a.iter().copied().collect(), pu.iter().copied().collect(), pr.iter().copied().collect());
            if sa.len() != a.len() || spu.len() != pu.len() || spr.len() != pr.len() {
                bad!("occurrence-listed-twice", "an occurrence is listed twice: all {a:?}, public {pu:?}, private {pr:?}");
            }
            if !spu.is_disjoint(&spr) {
                bad!("occurrence-public-and-private", "an occurrence is both public and private: public {:?}, private {:?}, all {:?}", n.public_slot_occurrences(), n.private_slot_occurrences(), n.all_slot_occurrences());
            }
            if spu.union(&spr).copied().collect::<BTreeSet<usize>>() != sa {
                bad!("occurrence-neither-public-nor-private", "public and private occurrences do not cover all occurrences: public {:?}, private {:?}, all {:?}", n.public_slot_occurrences(), n.private_slot_occurrences(), n.all_slot_occurrences());
            }
            let private: Vec<Slot> = occ.iter().filter(|x| !x.1).map(|x| slot(x.0)).collect();
            if n.private_slot_occurrences() != private {
                bad!("private_slot_occurrences", "got {:?}, model {:?}", n.private_slot_occurrences(), private);
            }
            if c.private_slot_occurrences_mut().into_iter().map(|x| *x).collect::<Vec<_>>() != private {
                bad!("private_slot_occurrences_mut", "mut and immut variants differ");
            }
        }
        // (b) shape canonical: shape <-> model key
        let (sh, bij) = n.weak_shape();
        let key = m.key(false);
        if let Some(k2) = tabs.shape_to_key.get(&sh) {
            if *k2 != key {
                bad!("shape-collision", "shape {sh:?} also belongs to a node with key {k2}, this node has key {key}");
            }
        }
        if let Some(sh2) = tabs.key_to_shape.get(&key) {
            if *sh2 != sh {
                bad!("shape-not-canonical", "nodes equal up to renaming have shapes {sh:?} and {sh2:?}");
            }
        }
        tabs.shape_to_key.insert(sh.clone(), key.clone());
        tabs.key_to_shape.insert(key.clone(), sh.clone());
        // (d) shape of a shape
        let (sh2, bij2) = sh.weak_shape();
        if sh2 != sh {
            bad!("shape-not-idempotent", "weak_shape(shape) = {sh2:?} != {sh:?}");
        }
        if !bij2.iter().all(|(a, b)| a == b) || bij2.keys() != sh.slots() {
            bad!("shape-bij-not-identity", "weak_shape(shape) bijection {bij2:?}");
        }
        // bij: slots(shape) -> slots(n), bijective
        if bij.keys() != sh.slots() || bij.values() != n.slots() || !bij.is_bijection() {
            bad!("bij-domain", "bij {bij:?}: keys must be the shape's slots {:?}, values the node's slots {:?}", sh.slots(), n.slots());
        }
        // (c) applying the bijection gives back the node up to bound names
        // known finding KF-C16-1: a free *numeric* slot of the node that coincides with a numeric shape name of a bound slot is
        // captured when the bijection is applied (the checks build asserts instead); reported under its own signature
        let collides = {
            let prv: BTreeSet<Slot> = sh.private_slot_occurrences().into_iter().collect();
            bij.values().iter().any(|v| prv.contains(v))
        };
        let restored = match guard(|| sh.apply_slotmap(&bij)) {
            Ok(r) => Some(r),
            Err(p) => {
                if collides && p.msg.contains("prv.contains") {
                    None
                } else {
                    bad!(format!("shape-apply-bij-panic {}", p.site()), "shape.apply_slotmap(bij) panicked: {}", p.msg);
                }
            }
        };
        // bound names of the restored node are numeric shape names; read them with a wider un-slot table
        let unslot2 = |s: Slot| -> Option<u32> {
            if let Some(x) = all_names.iter().copied().find(|n| slot(*n) == s) {
                return Some(x);
            }
            // shape names: numeric k -> 100 + k
            (0..40u32).find(|k| Slot::numeric(*k) == s).map(|k| 100 + k)
        };
        let same = match &restored {
            None => false,
            Some(r) => match from_elems(m.op, lang.sig(m.op), &r.to_syntax(), &unslot2) {
                Some(rm) => rm.key(true) == m.key(true),
                None => false,
            },
        };
        if !same {
            if collides {
                return Err(("numeric-free-slot-collision".into(), format!("shape {sh:?} with bijection {bij:?}: applying the bijection captures the free numeric slot (restored: {restored:?})")));
            }
            bad!("shape-apply-bij", "shape.apply_slotmap(bij) = {restored:?} is not alpha-equal to the node");
        }
        // (a) invariance under free renaming and alpha renaming
        let mut perm: Vec<u32> = (0..40).collect();
        r.shuffle(&mut perm);
        let renamed = m.rename(&|x, _| perm[x as usize]);
        let Some(n2) = L::from_syntax(&renamed.elems()) else { bad!("from_syntax-none", "renamed node rejected") };
        if n2.weak_shape().0 != sh {
            bad!("shape-not-invariant", "renaming all names by a bijection changes the shape: {:?} vs {sh:?}", n2.weak_shape().0);
        }
        // alpha only: rename bound occurrences to names that do not occur free
        let fr = m.free();
        let alpha = m.rename(&|x, is_free| if is_free { x } else { 50 + x });
        if alpha.free() == fr {
            let Some(n3) = L::from_syntax(&alpha.elems()) else { bad!("from_syntax-none", "alpha-renamed node rejected") };
            if n3.weak_shape().0 != sh {
                bad!("shape-not-alpha-invariant", "alpha renaming changes the shape: {:?} vs {sh:?}", n3.weak_shape().0);
            }
            if n3.weak_shape().1 != bij {
                bad!("bij-not-alpha-invariant", "alpha renaming changes the bijection");
            }
        }
        // apply_slotmap with a free renaming agrees with the model
        let nu: SlotMap = fr.iter().map(|x| (slot(*x), slot(perm[*x as usize]))).collect();
        let bound_names: BTreeSet<u32> = occ.iter().filter(|x| !x.1).map(|x| x.0).collect();
        if fr.iter().all(|x| !bound_names.contains(&perm[*x as usize])) {
            let n4 = n.apply_slotmap(&nu);
            if n4.weak_shape().0 != sh {
                bad!("apply_slotmap-changes-shape", "renaming free slots through apply_slotmap changes the shape");
            }
        }
        Ok(())
    });
    match res {
        Ok(Ok(())) => true,
        Ok(Err((sig, d))) if sig == "numeric-free-slot-collision" => {
            // recorded (at most once per language in this worker) and the run continues with the next node
            out.inc("numeric_collision_nodes");
            if !out.fails.iter().any(|f| f.sig.ends_with("numeric-free-slot-collision")) {
                out.fail(Fail::new("shape-incoherent", sig.clone(), format!("[{}] {d}", lang.name), cj.clone()));
            }
            true
        }
        Ok(Err((sig, d))) => fail!(sig, "{d}"),
        Err(p) => {
            out.fail(Fail::panic("panic", &p, &format!("node {m:?} of {}", lang.name), cj.clone()));
            false
        }
    }
}

/// Node values built with the enum constructors themselves (not through from_syntax), for the node forms where the harness can do
/// that without re-implementing the language: operators without arguments, bare payload leaves, one-slot leaves. The round trip of
/// the statement starts from a node value: to_syntax, then from_syntax, must give that value back - and the value from_syntax builds
/// for the syntax the harness wrote must be the one the constructor builds.
pub trait Direct: Language {
    fn direct(op: &str, payload: Option<&str>, slot: Option<Slot>) -> Option<Self>;
}
impl Direct for LSym {
    fn direct(op: &str, _p: Option<&str>, slot: Option<Slot>) -> Option<Self> {
        match (op, slot) {
            ("c", None) => Some(LSym::C()),
            ("d", None) => Some(LSym::D()),
            ("e", None) => Some(LSym::E()),
            ("var", Some(s)) => Some(LSym::Var(s)),
            ("g", Some(s)) => Some(LSym::G1(s)),
            _ => None,
        }
    }
}
impl Direct for LArith {
    fn direct(op: &str, p: Option<&str>, slot: Option<Slot>) -> Option<Self> {
        match (op, p, slot) {
            ("#num", Some(v), None) => v.parse::<u32>().ok().map(LArith::Num),
            ("var", None, Some(s)) => Some(LArith::Var(s)),
            _ => None,
        }
    }
}
impl Direct for LPay {
    fn direct(op: &str, p: Option<&str>, slot: Option<Slot>) -> Option<Self> {
        match (op, p, slot) {
            ("nil", None, None) => Some(LPay::Nil()),
            ("#num", Some(v), None) => v.parse::<u32>().ok().map(LPay::Num),
            ("#sym", Some(v), None) => Some(LPay::Sym(Symbol::from(v))),
            ("cst", Some(v), None) => v.parse::<u32>().ok().map(LPay::Cst),
            ("neg", Some(v), None) => v.parse::<i64>().ok().map(LPay::Neg),
            ("flag", Some(v), None) => v.parse::<bool>().ok().map(LPay::Flag),
            ("var", None, Some(s)) => Some(LPay::Var(s)),
            _ => None,
        }
    }
}
impl Direct for LNest {
    fn direct(op: &str, p: Option<&str>, slot: Option<Slot>) -> Option<Self> {
        match (op, p, slot) {
            ("kk", None, None) => Some(LNest::K()),
            ("#num", Some(v), None) => v.parse::<u32>().ok().map(LNest::N),
            ("big", Some(v), None) => v.parse::<i64>().ok().map(LNest::Big),
            ("tag", Some(v), Some(s)) => Some(LNest::Tag(Symbol::from(v), s)),
            _ => None,
        }
    }
}

fn run_lang<L: Language + Direct>(lang: &'static LangSig, rng: &mut Rng, n: usize, exhaustive: bool, out: &mut CaseOut) {
    let mut tabs: Tables<L> = Tables { shape_to_key: HashMap::new(), key_to_shape: HashMap::new() };
    if exhaustive {
        // all slot assignments from a three-name alphabet for every variant (children with 0..2 args)
        for o in lang.ops {
            let mut nodes: Vec<NM> = vec![NM { op: o.name, fields: vec![] }];
            for f in o.fields {
                let mut nx = vec![];
                for base in &nodes {
                    let opts: Vec<MF> = match f {
                        Fld::S => (0..3).map(MF::S).collect(),
                        Fld::P => {
                            let k = base.fields.iter().filter(|f| matches!(f, MF::P(_))).count();
                            vec![MF::P(gen_payload(lang.name, o.name, k, rng))]
                        }
                        Fld::X(k) => {
                            let mut v = vec![];
                            for bs in binder_lists(*k) {
                                for s in 0..3 {
                                    v.push(MF::X(bs.clone(), s));
                                }
                            }
                            v
                        }
                        Fld::C(k) => {
                            let mut v = vec![];
                            for bs in binder_lists(*k) {
                                for args in [vec![], vec![0], vec![1], vec![2], vec![0, 1], vec![1, 0], vec![0, 2], vec![2, 1], vec![0, 1, 2], vec![2, 0, 1]] {
                                    v.push(MF::C(bs.clone(), 0, args));
                                }
                            }
                            v
                        }
                    };
                    for o2 in opts {
                        let mut b = base.clone();
                        b.fields.push(o2);
                        nx.push(b);
                    }
                }
                nodes = nx;
                if nodes.len() > 60000 {
                    rng.shuffle(&mut nodes);
                    nodes.truncate(60000);
                }
            }
            for m in &nodes {
                out.inc("nodes_checked");
                out.inc("nodes_exhaustive");
                if !check_node::<L>(lang, m, rng, &mut tabs, out) {
                    return;
                }
            }
        }
    }
    for _ in 0..n {
        let o = &lang.ops[rng.below(lang.ops.len())];
        let alphabet = [2, 3, 4, 6, 24, 40][rng.below(6)];
        let m = gen_node(lang, o, rng, alphabet);
        out.inc("nodes_checked");
        let occ = m.occurrences();
        let names: BTreeSet<u32> = occ.iter().map(|x| x.0).collect();
        if occ.len() > names.len() {
            out.inc("nodes_with_repeated_slot");
        }
        let fr = m.free();
        if occ.iter().any(|x| !x.1 && fr.contains(&x.0)) {
            out.inc("nodes_with_shadowing");
        }
        if !check_node::<L>(lang, &m, rng, &mut tabs, out) {
            return;
        }
    }
    out.add("distinct_shapes", tabs.shape_to_key.len() as u64);
    for k in tabs.key_to_shape.keys() {
        out.nt_many.push(crate::rng::fnv(&format!("{}/{k}", lang.name)));
    }
}

fn binder_lists(k: usize) -> Vec<Vec<u32>> {
    match k {
        0 => vec![vec![]],
        1 => vec![vec![0], vec![1], vec![2]],
        _ => vec![vec![0, 1], vec![1, 0], vec![0, 2], vec![2, 1], vec![1, 2]],
    }
}

pub fn run(args: &Args, rep: &mut Rep) {
    if args.param_u("directed_kf1", 0) == 1 {
        // committed witness of KF-C16-1: (lam $v1 c[$0]) - the free numeric slot $0 coincides with the shape name of the bound slot
        let o = run_case(1, |rng| {
            let mut out = CaseOut::default();
            let mut tabs: Tables<LSym> = Tables { shape_to_key: HashMap::new(), key_to_shape: HashMap::new() };
            let m = NM { op: "lam", fields: vec![MF::C(vec![1], 0, vec![0])] };
            check_node::<LSym>(&LSYM, &m, rng, &mut tabs, &mut out);
            out
        });
        rep.absorb(1, o);
        return;
    }
    let n = args.cases as usize;
    let exhaustive = args.param_u("exhaustive", 1) == 1 && args.shard == 0;
    let seed = Rng::mix(args.seed, args.shard);
    let langs = ["LSym", "LArith", "LPay", "LNest"];
    for (li, l) in langs.iter().enumerate() {
        let l = *l;
        let o = run_case(Rng::mix(seed, li as u64), move |rng| {
            let mut out = CaseOut::default();
            match l {
                "LSym" => run_lang::<LSym>(&LSYM, rng, n, exhaustive, &mut out),
                "LArith" => run_lang::<LArith>(&LARITH, rng, n / 4, exhaustive, &mut out),
                "LPay" => run_lang::<LPay>(&LPAY, rng, n / 2, exhaustive, &mut out),
                _ => run_lang::<LNest>(&LNEST, rng, n, exhaustive, &mut out),
            }
            out.sample = Some(J::obj(vec![("mode", J::s(l)), ("example", J::s(format!("{:?}", gen_node(match l { "LSym" => &LSYM, "LArith" => &LARITH, "LPay" => &LPAY, _ => &LNEST }, &(match l { "LSym" => &LSYM, "LArith" => &LARITH, "LPay" => &LPAY, _ => &LNEST }).ops[rng.below(5)], rng, 3))))]));
            out
        });
        rep.absorb(li as u64, o);
    }
}
