//! C01 (soundness) / C02 (completeness) of the equality relation against the ground congruence closure oracle.
//! One execution feeds both monitors; `focus` decides which direction this check reports.
use crate::cc::*;
use crate::core::*;
use crate::gen::*;
use crate::json::J;
use crate::langs::*;
use crate::rng::Rng;
use crate::sym::*;
use crate::tm::*;
use slotted_egraphs::*;
use std::collections::{BTreeMap, BTreeSet};

#[derive(Clone, Copy, PartialEq)]
pub enum Focus {
    Sound,
    Complete,
    Both,
}

impl Focus {
    fn sound(self) -> bool {
        matches!(self, Focus::Sound | Focus::Both)
    }
    fn complete(self) -> bool {
        matches!(self, Focus::Complete | Focus::Both)
    }
}

/// reduced set of relative namings: tau maps fv(t) into names(s) ∪ fresh names (fresh ones used in order).
pub fn relative_namings(fs: &BTreeSet<Name>, ft: &BTreeSet<Name>, pool: u32) -> Vec<BTreeMap<Name, Name>> {
    let avoid: BTreeSet<Name> = fs.clone();
    let fresh: Vec<Name> = (0..pool).filter(|p| !avoid.contains(p)).collect();
    let ft: Vec<Name> = ft.iter().copied().collect();
    let mut out = vec![];
    fn rec(i: usize, ft: &[Name], fs: &BTreeSet<Name>, fresh: &[Name], used_fresh: usize, cur: &mut BTreeMap<Name, Name>, out: &mut Vec<BTreeMap<Name, Name>>) {
        if i == ft.len() {
            out.push(cur.clone());
            return;
        }
        for s in fs {
            if !cur.values().any(|v| v == s) {
                cur.insert(ft[i], *s);
                rec(i + 1, ft, fs, fresh, used_fresh, cur, out);
                cur.remove(&ft[i]);
            }
        }
        if used_fresh < fresh.len() {
            cur.insert(ft[i], fresh[used_fresh]);
            rec(i + 1, ft, fs, fresh, used_fresh + 1, cur, out);
            cur.remove(&ft[i]);
        }
    }
    rec(0, &ft, fs, &fresh, 0, &mut BTreeMap::new(), &mut out);
    out
}

pub struct CongCase {
    pub hist: History,
    pub pool: u32,
}

/// C10 "restricted to non-redundant slots": a multi-slot leaf, a union that makes some of its slots redundant,
/// and unions with permuted copies (including permutations that move a redundant slot), in random order.
fn gen_symred(rng: &mut Rng) -> History {
    let n = rng.range(3, 4);
    let op: &'static str = if n == 3 { "h" } else { "q" };
    let base: Vec<Name> = (0..n as Name).collect();
    let leaf = Tm::leaf(op, base.clone());
    let mut terms = vec![leaf.clone()];
    let mut ops = vec![HOp::Add(0)];
    let mut unions = vec![];
    // redundancy: equate with a leaf over a subset of the names
    let keep = rng.range(0, n - 1);
    let mut names = base.clone();
    rng.shuffle(&mut names);
    names.truncate(keep);
    let small = match keep {
        0 => Tm::leaf("c", vec![]),
        1 => Tm::leaf("g", names.clone()),
        2 => Tm::leaf("f", names.clone()),
        _ => Tm::leaf("h", names.clone()),
    };
    terms.push(small);
    unions.push((0, 1));
    for _ in 0..rng.range(1, 3) {
        let mut img = base.clone();
        match rng.below(3) {
            0 => {
                let i = rng.below(n);
                let j = (i + 1 + rng.below(n - 1)) % n;
                img.swap(i, j);
            }
            1 => img.rotate_left(1),
            _ => rng.shuffle(&mut img),
        }
        terms.push(Tm::leaf(op, img));
        unions.push((0, terms.len() - 1));
    }
    rng.shuffle(&mut unions);
    for (a, b) in unions {
        ops.push(HOp::Union(a, b));
    }
    History { terms, ops, ns: n, families: vec!["permuted-copy", "redundancy"] }
}

pub fn gen_case(rng: &mut Rng, profile: &str) -> CongCase {
    if profile == "symred" {
        let hist = gen_symred(rng);
        let pool = pool_for(hist.max_names().max(1), hist.ns);
        return CongCase { hist, pool };
    }
    let (ops, ns, max_names, max_terms, max_unions, depth): (&[&str], usize, usize, usize, usize, usize) = match profile {
        "m4" => (&["f", "g", "h", "k", "q", "c", "d", "u", "app", "pair", "lam"], 4, 4, 4, 4, 1),
        "binders" => (&["f", "g", "k", "var", "c", "u", "app", "lam", "sum", "let", "bb", "idx", "sb", "bsl"], 3, 4, 5, 4, 2),
        "small" => (&["f", "g", "c", "u"], 2, 2, 3, 2, 1),
        _ => (SYM_OPS_BASIC, 2 + rng.below(2), 3, 6, 5, 2),
    };
    let cfg = GenCfg { lang: &LSYM, ops: ops.to_vec(), ns, max_depth: depth, max_names, shadow: rng.chance(1, 3) };
    let hist = gen_history(rng, &cfg, max_terms, max_unions);
    let m = hist.max_names().max(1);
    let pool = pool_for(m, ns);
    CongCase { hist, pool }
}

pub fn run_case(rng: &mut Rng, focus: Focus, profile: &str) -> CaseOut {
    let case = gen_case(rng, profile);
    let mut out = eval_history(&case.hist, focus, profile, true);
    if let Some(f) = out.fails.first().cloned() {
        // minimise the history with respect to the same failure (kind + signature)
        let small = crate::gen::shrink_history(&case.hist, &|h2: &History| {
            let o = eval_history(h2, focus, profile, false);
            o.fails.iter().any(|g| g.kind == f.kind && g.sig == f.sig)
        });
        let o2 = eval_history(&small, focus, profile, false);
        if let Some(g) = o2.fails.into_iter().find(|g| g.kind == f.kind && g.sig == f.sig) {
            let mut g = g;
            g.detail = format!("{} [minimised from a history of {} operations]", g.detail, case.hist.ops.len());
            out.fails = vec![g];
        }
    }
    out
}

pub fn eval_history(h: &History, focus: Focus, profile: &str, full: bool) -> CaseOut {
    // analysis=1 lanes: the same histories, queries and oracle with the (min size, min depth) analysis of `c14s.rs` attached, whose
    // modify hook inserts parents `w(class)`: extra terms do not change which inserted terms are equal (the closure is conservative),
    // so both verdicts stay exact while make / merge / modify run inside every operation
    if WITH_ANALYSIS.with(|s| s.get()) {
        eval_history_n::<crate::props::c14s::ASym>(h, focus, profile, full)
    } else {
        eval_history_n::<()>(h, focus, profile, full)
    }
}

pub fn eval_history_n<N: Analysis<LSym> + Default + 'static>(h: &History, focus: Focus, profile: &str, full: bool) -> CaseOut {
    let mut out = CaseOut::default();
    let lang = &LSYM;
    let cj = h.json(lang);
    let m = h.max_names().max(1);
    let pool = pool_for(m, h.ns);
    let _ = full;
    // sparse monitoring: no query between the operations (queries canonicalise handles, i.e. they change the union-find through
    // path compression, which can mask defects that need an untouched chain); everything is judged once at the end
    let sparse = SPARSE.with(|s| s.get());
    let mut cc = CC::new(pool);
    let mut eg: EGraph<LSym, N> = EGraph::default();
    let mut ids: BTreeMap<usize, AppliedId> = BTreeMap::new();
    let mut added: Vec<usize> = vec![];
    let mut changed_unions = 0;
    let mut consequence_pairs = 0u64;
    let mut nontrivial_unequal = 0u64;
    let p0 = eg.progress();
    let mut prev = (p0.number_of_classes, p0.number_of_live_classes, p0.sum_of_slots, p0.sum_of_symmetries);

    for (step, op) in h.ops.iter().enumerate() {
        // ---- e-graph side
        let r = guard(|| match op {
            HOp::Add(i) => {
                let id = eg.add_expr(to_rec::<LSym>(lang, &h.terms[*i]));
                ids.insert(*i, id);
                false
            }
            HOp::Union(a, b) => {
                for t in [a, b] {
                    if !ids.contains_key(t) {
                        let id = eg.add_expr(to_rec::<LSym>(lang, &h.terms[*t]));
                        ids.insert(*t, id);
                    }
                }
                let (x, y) = (ids[a].clone(), ids[b].clone());
                eg.union(&x, &y)
            }
        });
        match r {
            Err(p) => {
                if focus.complete() {
                    out.fail(Fail::panic("panic-in-op", &p, &format!("step {step} ({})", h.text(lang)[step]), cj.clone()));
                } else {
                    out.inconclusive = Some("operation panicked (reported by C02/C08)".into());
                }
                out.inc("histories_aborted_by_panic");
                return out;
            }
            Ok(ch) => {
                if ch {
                    changed_unions += 1;
                }
            }
        }
        // ---- oracle side
        match op {
            HOp::Add(i) => {
                cc.add_instances(&h.terms[*i]);
                if !added.contains(i) {
                    added.push(*i);
                }
            }
            HOp::Union(a, b) => {
                for t in [a, b] {
                    if !added.contains(t) {
                        cc.add_instances(&h.terms[*t]);
                        added.push(*t);
                    }
                }
                cc.assert_eq(&h.terms[*a], &h.terms[*b])
            }
        }
        cc.saturate();
        // progress events (what kind of thing happened)
        let p = eg.progress();
        let cur = (p.number_of_classes, p.number_of_live_classes, p.sum_of_slots, p.sum_of_symmetries);
        if let HOp::Union(..) = op {
            if cur.1 < prev.1 {
                out.inc("merge_events");
            }
            if cur.2 + 0 < prev.2 && cur.1 == prev.1 {
                out.inc("redundancy_events");
            }
            if cur.3 > prev.3 && cur.1 == prev.1 {
                out.inc("symmetry_events");
            }
        }
        prev = cur;

        // ---- compare: top-level terms added so far, all relative namings (after every operation)
        let last = step + 1 == h.ops.len();
        if sparse && !last {
            continue;
        }
        let mut items: Vec<(Tm, AppliedId, bool)> = added.iter().map(|i| (h.terms[*i].canon(), ids[i].clone(), true)).collect();
        if last {
            // every other handle is rebuilt from the identity invocation of the class id it was returned with (that class may have
            // been merged away since): `mk_identity_applied_id(id)` with the original arguments plugged in denotes the same term
            for (k, it) in items.iter_mut().enumerate() {
                if k % 2 == 1 {
                    continue;
                }
                let hd = it.1.clone();
                match guard(|| eg.mk_identity_applied_id(hd.id).apply_slotmap_partial(&hd.m)) {
                    Ok(alt) => {
                        out.inc("handles_rebuilt_from_identity_invocation");
                        it.1 = alt;
                    }
                    Err(p) => {
                        out.fail(Fail::panic("panic-in-op", &p, &format!("mk_identity_applied_id({:?}).apply_slotmap", hd.id), cj.clone()));
                        return out;
                    }
                }
            }
            // plus all proper subterms (bodies open), obtained by non-mutating lookup
            let mut seen: BTreeSet<Tm> = items.iter().map(|x| x.0.clone()).collect();
            for i in &added {
                let mut subs = vec![];
                h.terms[*i].canon().subterms(&mut subs);
                for s in subs.into_iter().skip(1) {
                    // a body keeps its canonical bound names (>= BOUND) as free names: rename them into the pool
                    let s = close_into_pool(&s, pool);
                    let Some(s) = s else { continue };
                    if !seen.insert(s.clone()) {
                        continue;
                    }
                    match guard(|| lookup_rec_expr(&to_rec::<LSym>(lang, &s), &eg)) {
                        Ok(Some(a)) => items.push((s, a, false)),
                        Ok(None) => {
                            if focus.complete() {
                                out.fail(Fail::new("subterm-not-represented", "lookup-none", format!("subterm {} of an inserted term cannot be looked up", s.text(lang, &pname)), cj.clone()));
                            }
                        }
                        Err(p) => {
                            if focus.complete() {
                                out.fail(Fail::panic("panic-in-lookup", &p, "lookup_rec_expr of a subterm", cj.clone()));
                            }
                            return out;
                        }
                    }
                }
            }
        }
        for (ti, (t, idt, _)) in items.iter().enumerate() {
            // slots of the returned invocation vs. oracle support
            let ft = t.fv();
            let Some(sup) = cc.support(t) else { continue };
            let got = match guard(|| eg.find_applied_id(idt).slots()) {
                Ok(g) => g,
                Err(p) => {
                    if focus.complete() {
                        out.fail(Fail::panic("panic-in-find", &p, "find_applied_id", cj.clone()));
                    }
                    return out;
                }
            };
            let gotn = names_of_slots(&got, &ft);
            out.inc("slot_set_comparisons");
            match gotn {
                None => {
                    out.fail(Fail::new("foreign-slot", "slots-not-subset-of-fv", format!("slots {:?} of {} are not among its free slots", got, t.text(lang, &pname)), cj.clone()));
                }
                Some(g) => {
                    if focus.sound() && !g.is_superset(&sup) && redecide_support(h, step, t, pool + 2).map(|s2| !g.is_superset(&s2)).unwrap_or(true) {
                        out.fail(Fail::new("unsound-redundancy", "slot-dropped", format!("after step {step}: {} lost slot(s) {:?} although it depends on them (oracle support {:?}, e-graph {:?})", t.text(lang, &pname), sup.difference(&g).collect::<Vec<_>>(), sup, g), cj.clone()));
                    }
                    if focus.complete() && !g.is_subset(&sup) {
                        out.fail(Fail::new("missed-redundancy", "slot-kept", format!("after step {step}: {} keeps slot(s) {:?} although provably redundant (oracle support {:?}, e-graph {:?})", t.text(lang, &pname), g.difference(&sup).collect::<Vec<_>>(), sup, g), cj.clone()));
                    }
                    if g.len() < ft.len() {
                        out.inc("redundant_slot_observations");
                    }
                }
            }
            for (si, (s, ids_, _)) in items.iter().enumerate() {
                let fs = s.fv();
                for tau in relative_namings(&fs, &ft, pool) {
                    let t2 = t.rename(&tau);
                    let Some(want) = cc.equal(s, &t2) else {
                        out.inc("queries_outside_universe");
                        continue;
                    };
                    let b = idt.apply_slotmap_partial(&slotmap_of(&tau));
                    let got = match guard(|| eg.eq(ids_, &b)) {
                        Ok(g) => g,
                        Err(p) => {
                            if focus.complete() {
                                out.fail(Fail::panic("panic-in-eq", &p, "EGraph::eq", cj.clone()));
                            }
                            return out;
                        }
                    };
                    out.inc("queries");
                    if want {
                        out.inc("queries_equal");
                        if si != ti || !tau.iter().all(|(a, b)| a == b) {
                            // a non-reflexive equality: something had to be derived
                            consequence_pairs += 1;
                        }
                    } else if s.op == t.op {
                        nontrivial_unequal += 1;
                    }
                    if got != want {
                        let dir_matches = if got { focus.sound() } else { focus.complete() };
                        let what = format!("after step {step} ({}): eq({}, {}) = {got}, oracle says {want} (pool {pool})", h.text(lang)[step], s.text(lang, &pname), t2.text(lang, &pname));
                        if dir_matches {
                            if got {
                                // defence in depth: re-decide with a larger pool before reporting unsoundness
                                if !redecide(h, step, s, &t2, pool + 2) {
                                    out.fail(Fail::new("unsound-eq", "eq-true-oracle-false", what, cj.clone()));
                                } else {
                                    out.inc("pool_instability");
                                }
                            } else {
                                out.fail(Fail::new("incomplete-eq", "eq-false-oracle-true", what, cj.clone()));
                            }
                            return out;
                        } else {
                            out.inc("disagreements_other_direction");
                        }
                    }
                }
            }
        }
    }
    // pool stability sample: re-decide a few pairs at pool+1 (must agree)
    out.inc("histories_completed");
    if changed_unions > 0 {
        out.inc("histories_with_effective_union");
    }
    let nt = match focus {
        Focus::Sound => changed_unions > 0 && nontrivial_unequal > 0,
        Focus::Complete | Focus::Both => consequence_pairs > 0 && changed_unions > 0,
    };
    if nt {
        out.nontrivial = Some(h.hash(lang));
    }
    for f in &h.families {
        out.inc(match *f {
            "permuted-copy" => "family_permuted_copy",
            "redundancy" => "family_redundancy",
            "self-reference" => "family_self_reference",
            "duplicate" => "family_duplicate",
            "symmetric-user" => "family_symmetric_user",
            "congruence-chain" => "family_congruence_chain",
            "full-symmetry-pinned-users" => "family_full_symmetry_pinned_users",
            "symmetry-with-redundancy" => "family_symmetry_with_redundancy",
            "self-reference-with-symmetry" => "family_self_reference_with_symmetry",
            "binder-over-context" => "family_binder_over_context",
            _ => "family_slot_variant",
        });
    }
    out.add("ground_terms", cc.terms.len() as u64);
    out.sample = Some(J::obj(vec![("mode", J::s(profile)), ("history", J::arr_s(&h.text(lang))), ("pool", J::I(pool as i64))]));
    out
}

/// rename canonical bound names that occur free in an open body into unused pool names
fn close_into_pool(s: &Tm, pool: u32) -> Option<Tm> {
    let fv = s.fv();
    let mut m = BTreeMap::new();
    let mut used: BTreeSet<Name> = fv.iter().copied().filter(|n| *n < BOUND).collect();
    for n in fv.iter().filter(|n| **n >= BOUND) {
        let z = (0..pool).find(|p| !used.contains(p))?;
        used.insert(z);
        m.insert(*n, z);
    }
    // s is a subterm of a canonical term; its own binders are >= BOUND at deeper levels; re-canonise after renaming
    Some(s.rename(&m).canon())
}

/// recompute the oracle for the history prefix with another pool size and answer one query
fn redecide(h: &History, upto: usize, s: &Tm, t2: &Tm, pool: u32) -> bool {
    let mut cc = CC::new(pool);
    for op in &h.ops[..=upto] {
        match op {
            HOp::Add(i) => cc.add_instances(&h.terms[*i]),
            HOp::Union(a, b) => cc.assert_eq(&h.terms[*a], &h.terms[*b]),
        }
    }
    cc.add_instances(s);
    cc.add_instances(t2);
    cc.saturate();
    cc.equal(s, t2).unwrap_or(false)
}

fn redecide_support(h: &History, upto: usize, t: &Tm, pool: u32) -> Option<BTreeSet<Name>> {
    let mut cc = CC::new(pool);
    for op in &h.ops[..=upto] {
        match op {
            HOp::Add(i) => cc.add_instances(&h.terms[*i]),
            HOp::Union(a, b) => cc.assert_eq(&h.terms[*a], &h.terms[*b]),
        }
    }
    cc.add_instances(t);
    cc.saturate();
    cc.support(t)
}

thread_local! {
    pub static SPARSE: std::cell::Cell<bool> = std::cell::Cell::new(false);
    pub static WITH_ANALYSIS: std::cell::Cell<bool> = std::cell::Cell::new(false);
}

pub fn run(args: &Args, rep: &mut Rep, focus: Focus) {
    if args.param_s("naming", "") == "fhigh" {
        crate::tm::NAMING.store(1, std::sync::atomic::Ordering::Relaxed);
    }
    let profile = args.param_s("profile", "mix");
    let sparse = args.param_u("sparse", 0) == 1;
    let with_analysis = args.param_u("analysis", 0) == 1;
    drive(args, rep, move |rng, _| {
        SPARSE.with(|s| s.set(sparse));
        WITH_ANALYSIS.with(|s| s.set(with_analysis));
        let p = if profile == "mix" {
            match rng.below(10) {
                0 => "small",
                1 | 2 => "binders",
                _ => "default",
            }
        } else {
            match profile.as_str() {
                "m4" => "m4",
                "binders" => "binders",
                "small" => "small",
                "symred" => "symred",
                _ => "default",
            }
        };
        run_case(rng, focus, p)
    });
}
