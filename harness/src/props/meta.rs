//! Metamorphic monitors: C11 (renaming equivariance), C12 (order independence), C13 (monotonicity of equalities, handles, progress).
use crate::core::*;
use crate::gen::*;
use crate::json::J;
use crate::langs::*;
use crate::props::c08::sym_rules;
use crate::props::cong::relative_namings;
use crate::rng::Rng;
use crate::tm::*;
use slotted_egraphs::*;
use std::collections::{BTreeMap, BTreeSet};

/// how abstract names are spelled
#[derive(Clone, Debug)]
pub struct Naming {
    pub names: Vec<String>,
    pub bound_prefix: String,
    pub label: &'static str,
    /// names to intern (in this order) before the history starts; empty = names are parsed lazily when first used
    pub intern_first: Vec<usize>,
    /// how the slot names written inside rewrite rules ($x, $y, $z, $a ..) are spelled under this naming (0 = unchanged)
    pub rule_style: usize,
}

impl Naming {
    pub fn neutral() -> Naming {
        Naming { names: (0..16).map(|i| format!("p{i}")).collect(), bound_prefix: "b".into(), label: "neutral", intern_first: vec![], rule_style: 0 }
    }
    pub fn random(r: &mut Rng) -> Naming {
        let k = r.below(7);
        let mut names: Vec<String> = match k {
            0 => (0..16).map(|i| format!("{}", i)).collect(),             // numeric, ascending
            1 => (0..16).map(|i| format!("{}", 40 - i)).collect(),        // numeric, descending internal order
            2 => (0..16).map(|i| format!("f{}", i)).collect(),            // print like fresh slots f0..f15
            3 => (0..16).map(|i| format!("f{}", 500 + 3 * i)).collect(),  // f<n> above the counter
            4 => (0..16).map(|i| format!("z{}", 15 - i)).collect(),       // textual, interned in reverse order later
            5 => vec!["zz", "a", "3", "f7", "x", "0", "f0", "y", "12", "q", "f3", "m", "1", "w", "f11", "k"].into_iter().map(String::from).collect(),
            _ => (0..16).map(|i| format!("p{}", i)).collect(),
        };
        match r.below(3) {
            0 => {}
            1 => names.rotate_left(1 + r.below(5)),
            _ => r.shuffle(&mut names),
        }
        let bound_prefix = ["b", "f9", "v", "0"][r.below(4)].to_string();
        let label = ["numeric-asc", "numeric-desc", "fresh-like", "fresh-like-high", "textual-rev", "mixed", "p-permuted"][k];
        // textual names are numbered by first interning: vary the interning order (performed by `prepare` in the thread that runs the history)
        let mut intern_first = vec![];
        if k == 4 || k == 5 {
            intern_first = (0..16).collect();
            r.shuffle(&mut intern_first);
        }
        let rule_style = r.below(4);
        Naming { names, bound_prefix, label, intern_first, rule_style }
    }
    /// rename the slot names inside a rule text consistently (order-reversing numeric, fresh-like, reversed textual)
    pub fn rule_text(&self, t: &str) -> String {
        if self.rule_style == 0 {
            return t.to_string();
        }
        let mut out = String::new();
        let mut chars = t.chars().peekable();
        while let Some(c) = chars.next() {
            if c == '$' {
                let mut name = String::new();
                while let Some(d) = chars.peek() {
                    if d.is_alphanumeric() {
                        name.push(*d);
                        chars.next();
                    } else {
                        break;
                    }
                }
                // x,y,z,a,b,c,d,... -> index by first letter (alphabetical), spelled so that the order is reversed
                let k = name.bytes().next().map(|b| (b as u32).saturating_sub(b'a' as u32)).unwrap_or(0);
                let new = match self.rule_style {
                    1 => format!("{}", 900 - k),
                    2 => format!("f{}", 9000 - 7 * k),
                    _ => format!("r{}", (b'z' - (k as u8).min(25)) as char),
                };
                out.push('$');
                out.push_str(&new);
            } else {
                out.push(c);
            }
        }
        out
    }
    pub fn prepare(&self) {
        for i in &self.intern_first {
            let _ = Slot::named(&self.names[*i]);
        }
    }
    pub fn name(&self, n: Name) -> String {
        if n >= BOUND {
            format!("${}{}", self.bound_prefix, 900 + (n - BOUND))
        } else if (n as usize) < self.names.len() {
            format!("${}", self.names[n as usize])
        } else {
            format!("$w{}", n)
        }
    }
    pub fn slot(&self, n: Name) -> Slot {
        Slot::named(&self.name(n)[1..])
    }
    pub fn unslot(&self, s: Slot, universe: &BTreeSet<Name>) -> Option<Name> {
        universe.iter().copied().find(|n| self.slot(*n) == s)
    }
}

#[derive(Clone, Debug)]
pub enum MOp {
    Add(usize),
    Union(usize, usize),
    Rewrite(Vec<usize>),
}

#[derive(Clone, Debug)]
pub struct MHist {
    pub terms: Vec<Tm>,
    pub ops: Vec<MOp>,
    /// (name, lhs, rhs) rule texts
    pub rules: Vec<(String, String, String)>,
}

impl MHist {
    pub fn text(&self, nm: &Naming) -> Vec<String> {
        let f = |n: Name| nm.name(n);
        self.ops
            .iter()
            .map(|o| match o {
                MOp::Add(i) => format!("add {}", self.terms[*i].text(&LSYM, &f)),
                MOp::Union(a, b) => format!("union {} = {}", self.terms[*a].text(&LSYM, &f), self.terms[*b].text(&LSYM, &f)),
                MOp::Rewrite(rs) => format!("rewrite {:?}", rs.iter().map(|i| format!("{}: {} => {}", self.rules[*i].0, self.rules[*i].1, self.rules[*i].2)).collect::<Vec<_>>()),
            })
            .collect()
    }
}

#[derive(Clone, Debug, PartialEq, Eq)]
pub struct Obs {
    /// answers of all equality queries in a canonical order
    pub eqs: Vec<bool>,
    pub live_classes: usize,
    /// sorted multiset of (slot count, symmetry count) over live classes
    pub class_profile: Vec<(usize, usize)>,
    /// per inserted term: (slot count, symmetry count, names of its slots)
    pub per_term: Vec<(usize, usize, BTreeSet<Name>)>,
    /// per inserted term: cost of the extracted term (AstSize)
    pub costs: Vec<u64>,
    pub total_nodes: usize,
    /// per inserted term: the e-nodes of its class as seen through the handle that insertion returned (user slots as arguments):
    /// (number of e-nodes, how many of them look up to an invocation equal to the handle, sorted free-slot counts)
    pub enode_views: Vec<(usize, usize, Vec<usize>)>,
}

fn sym_count(eg: &EGraph<LSym>, a: &AppliedId) -> usize {
    let a = eg.find_applied_id(a);
    let slots: Vec<Slot> = a.m.values_vec();
    let k = slots.len();
    if k > 5 {
        return usize::MAX;
    }
    let mut count = 0;
    let mut idx: Vec<usize> = (0..k).collect();
    // all permutations of k elements (Heap's algorithm, iterative over lexicographic order)
    loop {
        let m: SlotMap = (0..k).map(|i| (slots[i], slots[idx[i]])).collect();
        if eg.eq(&a, &a.apply_slotmap(&m)) {
            count += 1;
        }
        // next permutation
        let mut i = k;
        while i > 1 && idx[i - 2] >= idx[i - 1] {
            i -= 1;
        }
        if i <= 1 {
            break;
        }
        let mut j = k - 1;
        while idx[j] <= idx[i - 2] {
            j -= 1;
        }
        idx.swap(i - 2, j);
        idx[i - 1..].reverse();
    }
    count
}

pub struct Run {
    pub eg: EGraph<LSym>,
    pub ids: BTreeMap<usize, AppliedId>,
}

/// Execute `h` under `nm` with the given operation order; `flips[k]` flips the orientation of the k-th union.
pub fn execute(h: &MHist, nm: &Naming, order: &[usize], flips: &[bool]) -> Result<Run, (usize, PanicInfo)> {
    let f = |n: Name| nm.name(n);
    let mut eg: EGraph<LSym> = EGraph::default();
    let mut ids: BTreeMap<usize, AppliedId> = BTreeMap::new();
    let mut ucount = 0;
    for &oi in order {
        let r = guard(|| match &h.ops[oi] {
            MOp::Add(i) => {
                let id = eg.add_expr(RecExpr::parse(&h.terms[*i].text(&LSYM, &f)).unwrap());
                ids.insert(*i, id);
            }
            MOp::Union(a, b) => {
                for t in [a, b] {
                    if !ids.contains_key(t) {
                        let id = eg.add_expr(RecExpr::parse(&h.terms[*t].text(&LSYM, &f)).unwrap());
                        ids.insert(*t, id);
                    }
                }
                let (x, y) = (ids[a].clone(), ids[b].clone());
                if flips.get(ucount).copied().unwrap_or(false) {
                    eg.union(&y, &x);
                } else {
                    eg.union(&x, &y);
                }
                ucount += 1;
            }
            MOp::Rewrite(rs) => {
                if eg.total_number_of_nodes() < 90 {
                    let rws: Vec<Rewrite<LSym>> = rs.iter().map(|i| Rewrite::new(&h.rules[*i].0, &nm.rule_text(&h.rules[*i].1), &nm.rule_text(&h.rules[*i].2))).collect();
                    apply_rewrites(&mut eg, &rws);
                }
            }
        });
        if let Err(p) = r {
            return Err((oi, p));
        }
    }
    // terms never added explicitly (only possible for shrunk histories)
    Ok(Run { eg, ids })
}

pub fn observe(h: &MHist, nm: &Naming, run: &Run, with_costs: bool) -> Result<Obs, PanicInfo> {
    guard(|| {
        let eg = &run.eg;
        let mut eqs = vec![];
        let idx: Vec<usize> = run.ids.keys().copied().collect();
        let canon: BTreeMap<usize, Tm> = idx.iter().map(|i| (*i, h.terms[*i].canon())).collect();
        for &j in &idx {
            let t = &canon[&j];
            let ft = t.fv();
            for &i in &idx {
                let fs = canon[&i].fv();
                for tau in relative_namings(&fs, &ft, 16) {
                    let sm: SlotMap = tau.iter().map(|(a, b)| (nm.slot(*a), nm.slot(*b))).collect();
                    let b = run.ids[&j].apply_slotmap_partial(&sm);
                    eqs.push(eg.eq(&run.ids[&i], &b));
                }
            }
        }
        let mut class_profile = vec![];
        for c in eg.ids() {
            let a = eg.mk_identity_applied_id(c);
            class_profile.push((eg.slots(c).len(), sym_count(eg, &a)));
        }
        class_profile.sort();
        let mut per_term = vec![];
        let mut costs = vec![];
        let ex = if with_costs { Some(Extractor::<LSym, AstSize>::new(eg, AstSize)) } else { None };
        for &i in &idx {
            let a = eg.find_applied_id(&run.ids[&i]);
            let fv = canon[&i].fv();
            let names: BTreeSet<Name> = a.slots().iter().map(|s| nm.unslot(*s, &fv).unwrap_or(9999)).collect();
            per_term.push((a.slots().len(), sym_count(eg, &a), names));
            if let Some(ex) = &ex {
                costs.push(ex.get_best_cost::<()>(&a));
            }
        }
        let mut enode_views = vec![];
        for &i in &idx {
            // (canonicalised first: which of two merged classes keeps the e-nodes is an internal choice; the arguments stay the user's slots)
            let hd = &eg.find_applied_id(&run.ids[&i]);
            let ns = eg.enodes_applied(hd);
            let ok = ns.iter().filter(|n| eg.lookup(n).map(|x| eg.eq(&x, hd)).unwrap_or(false)).count();
            let mut fs: Vec<usize> = ns.iter().map(|n| n.slots().len()).collect();
            fs.sort();
            enode_views.push((ns.len(), ok, fs));
        }
        Obs { eqs, live_classes: eg.ids().len(), class_profile, per_term, costs, total_nodes: eg.total_number_of_nodes(), enode_views }
    })
}

fn diff(a: &Obs, b: &Obs, what: &[&str]) -> Option<String> {
    for w in what {
        let d = match *w {
            "eqs" => a.eqs != b.eqs,
            "live" => a.live_classes != b.live_classes,
            "profile" => a.class_profile != b.class_profile,
            "term-slots" => a.per_term.iter().map(|x| x.0).collect::<Vec<_>>() != b.per_term.iter().map(|x| x.0).collect::<Vec<_>>(),
            "term-syms" => a.per_term.iter().map(|x| x.1).collect::<Vec<_>>() != b.per_term.iter().map(|x| x.1).collect::<Vec<_>>(),
            "term-slot-names" => a.per_term.iter().map(|x| &x.2).collect::<Vec<_>>() != b.per_term.iter().map(|x| &x.2).collect::<Vec<_>>(),
            "costs" => a.costs != b.costs,
            "nodes" => a.total_nodes != b.total_nodes,
            "enode-views" => a.enode_views != b.enode_views,
            _ => false,
        };
        if d {
            let detail = match *w {
                "eqs" => {
                    let k = a.eqs.iter().zip(b.eqs.iter()).position(|(x, y)| x != y);
                    format!("equality answers differ (first at query #{:?} of {}; {} vs {} true answers)", k, a.eqs.len(), a.eqs.iter().filter(|x| **x).count(), b.eqs.iter().filter(|x| **x).count())
                }
                "live" => format!("live classes {} vs {}", a.live_classes, b.live_classes),
                "profile" => format!("class (slots, symmetries) multiset {:?} vs {:?}", a.class_profile, b.class_profile),
                "costs" => format!("extracted costs {:?} vs {:?}", a.costs, b.costs),
                "nodes" => format!("node count {} vs {}", a.total_nodes, b.total_nodes),
                "enode-views" => format!("per-term (e-nodes, e-nodes that look up to the handle, free-slot counts) through enodes_applied(handle): {:?} vs {:?}", a.enode_views, b.enode_views),
                _ => format!("per-term (slots, symmetries, slot names) {:?} vs {:?}", a.per_term, b.per_term),
            };
            return Some(format!("{w}: {detail}"));
        }
    }
    None
}

pub fn gen_mhist(rng: &mut Rng, with_rewrites: bool) -> MHist {
    gen_mhist_q(rng, with_rewrites, false)
}

/// `with_q`: few operators incl. the four-slot leaf `q`, four names (classes with >= 4 slots and symmetries on some of them only)
pub fn gen_mhist_q(rng: &mut Rng, with_rewrites: bool, with_q: bool) -> MHist {
    let ns = if with_q { 4 } else { rng.range(2, 4) };
    let ops: Vec<&'static str> = if with_q { vec!["q", "h", "g", "f", "k", "c", "u", "lam", "app", "pair"] } else { vec!["f", "g", "h", "k", "var", "c", "d", "u", "w", "app", "pair", "lam", "sum", "let", "idx"] };
    let cfg = GenCfg { lang: &LSYM, ops, ns, max_depth: 2, max_names: 4, shadow: rng.chance(1, 3) };
    let h = gen_history(rng, &cfg, 6, 5);
    let mut ops: Vec<MOp> = h.ops.iter().map(|o| match o { HOp::Add(i) => MOp::Add(*i), HOp::Union(a, b) => MOp::Union(*a, *b) }).collect();
    let mut rules = vec![];
    if with_rewrites {
        for (d, _) in sym_rules(rng) {
            let (n, rest) = d.split_once(": ").unwrap();
            let (l, r) = rest.split_once(" => ").unwrap();
            rules.push((n.to_string(), l.to_string(), r.to_string()));
        }
        if !rules.is_empty() {
            for _ in 0..rng.range(1, 2) {
                let k = rng.range(1, rules.len().min(5));
                let mut idx: Vec<usize> = (0..rules.len()).collect();
                rng.shuffle(&mut idx);
                idx.truncate(k);
                let pos = rng.below(ops.len() + 1);
                ops.insert(pos, MOp::Rewrite(idx));
            }
        }
    }
    let mut terms = h.terms;
    // late-introduced names under binders: a name that is parsed for the first time in the middle of the history, free under a
    // binder whose private slot is refreshed right afterwards (hygiene of freshly parsed names, incl. names that look like fresh slots)
    if rng.chance(1, 2) {
        let late: Name = 10 + rng.below(5) as Name;
        let b: Name = BINDER_BASE + 40;
        let fam = vec![
            Tm::leaf("var", vec![rng.below(2) as Name]),
            Tm::node("lam", vec![], vec![(vec![b], Tm::leaf("var", vec![late]))]),
            Tm::node("lam", vec![], vec![(vec![b], Tm::leaf("var", vec![b]))]),
            Tm::node("lam", vec![], vec![(vec![b], Tm::leaf("f", vec![b, late + 1]))]),
        ];
        let base = terms.len();
        let pos = rng.below(ops.len() + 1);
        for (i, t) in fam.into_iter().enumerate() {
            terms.push(t);
            ops.insert((pos + i).min(ops.len()), MOp::Add(base + i));
        }
    }
    MHist { terms, ops, rules }
}

fn shrink_mhist(h: &MHist, still: &dyn Fn(&MHist) -> bool) -> MHist {
    let mut cur = h.clone();
    let mut budget = 150;
    loop {
        let mut progress = false;
        let mut i = cur.ops.len();
        while i > 0 && budget > 0 {
            i -= 1;
            if cur.ops.len() <= 1 {
                break;
            }
            let mut c = cur.clone();
            c.ops.remove(i);
            budget -= 1;
            if still(&c) {
                cur = c;
                progress = true;
            }
        }
        if !progress || budget == 0 {
            break;
        }
    }
    cur
}

// ------------------------------------------------------------------------------------------- C12

fn c12_eval(h: &MHist, perms: &[(Vec<usize>, Vec<bool>)]) -> Option<(String, String)> {
    let nm = Naming::neutral();
    let base_order: Vec<usize> = (0..h.ops.len()).collect();
    let nun = h.ops.iter().filter(|o| matches!(o, MOp::Union(..))).count();
    let r0 = match execute(h, &nm, &base_order, &vec![false; nun]) {
        Ok(r) => r,
        Err(_) => return None,
    };
    if r0.ids.len() != h.terms.iter().enumerate().filter(|(i, _)| h.ops.iter().any(|o| matches!(o, MOp::Add(j) if j == i) || matches!(o, MOp::Union(a, b) if a == i || b == i))).count() {
        return None;
    }
    let o0 = observe(h, &nm, &r0, false).ok()?;
    for (order, flips) in perms {
        let r1 = match execute(h, &nm, order, flips) {
            Ok(r) => r,
            Err(_) => return None,
        };
        let o1 = observe(h, &nm, &r1, false).ok()?;
        if let Some(d) = diff(&o0, &o1, &["eqs", "live", "term-slots", "term-syms", "term-slot-names"]) {
            let what = d.split(':').next().unwrap().to_string();
            return Some((what, format!("order {order:?} flips {flips:?}: {d}")));
        }
    }
    None
}

pub fn c12_case(rng: &mut Rng, norders: usize, with_q: bool) -> CaseOut {
    let mut out = CaseOut::default();
    let h = gen_mhist_q(rng, false, with_q);
    let n = h.ops.len();
    let nun = h.ops.iter().filter(|o| matches!(o, MOp::Union(..))).count();
    let mut perms = vec![];
    for _ in 0..norders {
        let order = rng.perm(n);
        let flips: Vec<bool> = (0..nun).map(|_| rng.chance(1, 2)).collect();
        perms.push((order, flips));
    }
    // orientation flips alone, and reversal alone
    perms.push(((0..n).collect(), vec![true; nun]));
    perms.push(((0..n).rev().collect(), vec![false; nun]));
    let nm = Naming::neutral();
    let cj = |h: &MHist| J::obj(vec![("history", J::arr_s(&h.text(&nm)))]);
    // panics are C08's business; here they make the case inconclusive
    let base: Vec<usize> = (0..n).collect();
    if execute(&h, &nm, &base, &vec![false; nun]).is_err() {
        out.inconclusive = Some("history panicked (reported by C02/C08)".into());
        return out;
    }
    out.add("orders_compared", perms.len() as u64);
    if let Some((sig, _)) = c12_eval(&h, &perms) {
        // minimise: drop operations while some order still differs (orders are re-drawn for the smaller history)
        let small = shrink_mhist(&h, &|h2: &MHist| {
            let n2 = h2.ops.len();
            let nun2 = h2.ops.iter().filter(|o| matches!(o, MOp::Union(..))).count();
            let mut ps = vec![((0..n2).rev().collect::<Vec<_>>(), vec![false; nun2]), ((0..n2).collect(), vec![true; nun2])];
            let mut r2 = Rng::new(n2 as u64 * 77 + 5);
            for _ in 0..6 {
                ps.push((r2.perm(n2), (0..nun2).map(|_| r2.chance(1, 2)).collect()));
            }
            c12_eval(h2, &ps).map(|x| x.0 == sig).unwrap_or(false)
        });
        let n2 = small.ops.len();
        let nun2 = small.ops.iter().filter(|o| matches!(o, MOp::Union(..))).count();
        let mut ps = vec![((0..n2).rev().collect::<Vec<_>>(), vec![false; nun2]), ((0..n2).collect(), vec![true; nun2])];
        let mut r2 = Rng::new(n2 as u64 * 77 + 5);
        for _ in 0..6 {
            ps.push((r2.perm(n2), (0..nun2).map(|_| r2.chance(1, 2)).collect()));
        }
        let (hh, d) = match c12_eval(&small, &ps) {
            Some((_, d)) => (small, d),
            None => (h.clone(), c12_eval(&h, &perms).unwrap().1),
        };
        out.fail(Fail::new("order-dependence", sig, d, cj(&hh)));
        return out;
    }
    out.inc("histories_compared");
    if nun >= 2 {
        let mut hsh = 0;
        for l in h.text(&nm) {
            hsh = Rng::mix(hsh, crate::rng::fnv(&l));
        }
        out.nontrivial = Some(hsh);
    }
    out.sample = Some(J::obj(vec![("mode", J::s("orders")), ("history", J::arr_s(&h.text(&nm))), ("an_order", J::s(format!("{:?}", perms[0])))]));
    out
}

// ------------------------------------------------------------------------------------------- C11

/// one run of the history under a naming, in a fresh thread (fresh slot table): Ok(observation) or Err(panic site)
fn run_fresh(h: &MHist, nm: &Naming) -> Result<Obs, Option<(usize, PanicInfo)>> {
    let (h2, nm2) = (h.clone(), nm.clone());
    let salt = crate::core::case_salt();
    std::thread::Builder::new()
        .stack_size(128 << 20)
        .spawn(move || {
            crate::core::CASE_SALT.with(|c| c.set(salt));
            nm2.prepare();
            let order: Vec<usize> = (0..h2.ops.len()).collect();
            match execute(&h2, &nm2, &order, &[]) {
                Ok(r) => observe(&h2, &nm2, &r, true).map_err(|p| Some((usize::MAX, p))),
                Err(e) => Err(Some(e)),
            }
        })
        .unwrap()
        .join()
        .unwrap_or(Err(None))
}

fn c11_eval(h: &MHist, nb: &Naming) -> Option<(String, String)> {
    let oa = run_fresh(h, &Naming::neutral()).ok()?;
    let ob = run_fresh(h, nb).ok()?;
    diff(&oa, &ob, &["eqs", "live", "profile", "term-slots", "term-syms", "term-slot-names", "costs", "nodes", "enode-views"]).map(|d| (d.split(':').next().unwrap().to_string(), d))
}

fn install_thread_hook() {}

pub fn c11_case(rng: &mut Rng, lazy_f_names: bool, with_q: bool) -> CaseOut {
    let mut out = CaseOut::default();
    let wr = !with_q && rng.chance(1, 2);
    let h = gen_mhist_q(rng, wr, with_q);
    let mut nb = Naming::random(rng);
    if lazy_f_names {
        // hygiene lane of C17: user names f0.. / numeric 0.., first parsed when the operation needs them,
        // i.e. after internal fresh slots with the same printed names exist
        nb = if rng.chance(1, 2) {
            Naming { names: (0..16).map(|i| format!("f{}", i)).collect(), bound_prefix: "f".into(), label: "lazy-fresh-like", intern_first: vec![], rule_style: 2 }
        } else {
            Naming { names: (0..16).map(|i| format!("{}", i)).collect(), bound_prefix: "".into(), label: "lazy-numeric", intern_first: vec![], rule_style: 1 }
        };
    }
    let na = Naming::neutral();
    let cj = |h: &MHist| J::obj(vec![("history_neutral", J::arr_s(&h.text(&na))), ("history_renamed", J::arr_s(&h.text(&nb))), ("naming", J::s(nb.label))]);
    if run_fresh(&h, &na).is_err() {
        out.inconclusive = Some("history panicked (reported by C02/C08)".into());
        return out;
    }
    // a panic that only occurs under the renaming is a violation of equivariance
    if let Err(Some((oi, p))) = run_fresh(&h, &nb) {
        out.fail(Fail::panic("panic-only-under-renaming", &p, &format!("operation {oi} under naming {}", nb.label), cj(&h)));
        return out;
    }
    if let Some((sig, d)) = c11_eval(&h, &nb) {
        let small = shrink_mhist(&h, &|h2: &MHist| c11_eval(h2, &nb).map(|x| x.0 == sig).unwrap_or(false));
        let (hh, d) = match c11_eval(&small, &nb) {
            Some((_, d2)) => (small, d2),
            None => (h.clone(), d),
        };
        out.fail(Fail::new("renaming-dependence", format!("{}", sig), format!("naming {}: {d}", nb.label), cj(&hh)));
        return out;
    }
    out.inc("histories_compared");
    *out.counters.entry(match nb.label {
        "numeric-asc" => "naming_numeric_asc",
        "numeric-desc" => "naming_numeric_desc",
        "fresh-like" => "naming_fresh_like",
        "fresh-like-high" => "naming_fresh_like_high",
        "textual-rev" => "naming_textual_rev",
        "mixed" => "naming_mixed",
        "lazy-fresh-like" => "naming_lazy_fresh_like",
        "lazy-numeric" => "naming_lazy_numeric",
        _ => "naming_p_permuted",
    }).or_insert(0) += 1;
    if h.ops.iter().any(|o| matches!(o, MOp::Rewrite(_))) {
        out.inc("histories_with_rewriting");
    }
    let mut hsh = crate::rng::fnv(nb.label);
    for l in h.text(&nb) {
        hsh = Rng::mix(hsh, crate::rng::fnv(&l));
    }
    out.nontrivial = Some(hsh);
    out.sample = Some(J::obj(vec![("mode", J::s(nb.label)), ("history_renamed", J::arr_s(&h.text(&nb)))]));
    out
}

// ------------------------------------------------------------------------------------------- C13

pub fn c13_case(rng: &mut Rng, len_lo: usize, len_hi: usize, with_q: bool, sparse: bool) -> CaseOut {
    let mut out = CaseOut::default();
    let lang = &LSYM;
    let ns = rng.range(2, 4);
    // no four-slot leaf here: with S4 symmetries on several children the crate's shape computation (a cartesian product over
    // the children's groups) makes long histories take minutes, which only produces watchdog timeouts
    // (the `with_q` lane uses short histories over few operators instead, so that four-slot symmetries are covered too)
    let ops: Vec<&'static str> = if with_q { vec!["q", "h", "g", "f", "c", "u", "lam", "app"] } else { SYM_OPS_ALL.iter().copied().filter(|o| *o != "q").collect() };
    let cfg = GenCfg { lang, ops, ns, max_depth: 2, max_names: 4, shadow: rng.chance(1, 3) };
    let mut eg: EGraph<LSym> = EGraph::default();
    let rules: Vec<(String, Rewrite<LSym>)> = if with_q { vec![] } else { sym_rules(rng).into_iter().filter(|r| !r.0.starts_with("q-rot")).collect() };
    let len = rng.range(len_lo, len_hi);
    let mut handles: Vec<AppliedId> = vec![];
    let mut slots_at_record: Vec<BTreeSet<Slot>> = vec![];
    let mut equal_pairs: Vec<(AppliedId, AppliedId, usize)> = vec![];
    let mut log: Vec<String> = vec![];
    let mut prev = eg.progress();
    let mut terms: Vec<Tm> = vec![];
    for step in 0..len {
        let roll = rng.below(100);
        let mut desc = String::new();
        let r = guard(|| {
            if roll < 45 || handles.len() < 2 {
                let t = if !terms.is_empty() && rng.chance(1, 3) {
                    let c = terms[rng.below(terms.len())].canon();
                    let fv: Vec<Name> = c.fv().into_iter().collect();
                    let mut img = fv.clone();
                    rng.shuffle(&mut img);
                    c.rename(&fv.iter().copied().zip(img).collect())
                } else if with_q && !terms.is_empty() && rng.chance(1, 3) {
                    // the same term with one free slot replaced by another name (unions of such pairs make slots redundant)
                    let c = terms[rng.below(terms.len())].canon();
                    let fv: Vec<Name> = c.fv().into_iter().collect();
                    if fv.is_empty() {
                        c
                    } else {
                        let a = fv[rng.below(fv.len())];
                        let b = (0..8).find(|n| !fv.contains(n)).unwrap_or(7);
                        c.rename(&[(a, b)].into_iter().collect())
                    }
                } else if with_q && rng.chance(1, 2) {
                    let mut names: Vec<Name> = (0..5).collect();
                    rng.shuffle(&mut names);
                    Tm::leaf("q", names[..4].to_vec())
                } else {
                    gen_closed_term(rng, &cfg)
                };
                desc = format!("add {}", t.text(lang, &pname));
                let id = eg.add_expr(RecExpr::parse(&t.text(lang, &pname)).unwrap());
                handles.push(id);
                terms.push(t);
            } else if roll < 85 {
                let (i, j) = (rng.below(handles.len()), rng.below(handles.len()));
                desc = format!("union #{i} {:?} = #{j} {:?}", handles[i], handles[j]);
                let (a, b) = (handles[i].clone(), handles[j].clone());
                eg.union(&a, &b);
                // the asserted pair is equal from now on
                equal_pairs.push((a, b, step));
            } else if eg.total_number_of_nodes() < 90 && !rules.is_empty() {
                let k = rng.range(1, rules.len());
                desc = format!("rewrite {:?}", rules[..k].iter().map(|x| x.0.clone()).collect::<Vec<_>>());
                let rs: Vec<Rewrite<LSym>> = rules[..k].iter().map(|(d, _)| {
                    let (n, rest) = d.split_once(": ").unwrap();
                    let (l, r) = rest.split_once(" => ").unwrap();
                    Rewrite::new(n, l, r)
                }).collect();
                apply_rewrites(&mut eg, &rs);
            } else {
                desc = "noop".into();
            }
        });
        log.push(desc.clone());
        if std::env::var("VERIF_TRACE").is_ok() {
            eprintln!("step {step}: {desc}  [nodes={}]", eg.total_number_of_nodes());
        }
        let cj = || J::obj(vec![("log", J::arr_s(&log))]);
        if r.is_err() {
            out.inconclusive = Some("operation panicked (reported by C08)".into());
            return out;
        }
        // progress measure moves only in its documented direction
        let p = eg.progress();
        let ok = if p.number_of_classes != prev.number_of_classes {
            p.number_of_classes > prev.number_of_classes
        } else if p.number_of_live_classes != prev.number_of_live_classes {
            p.number_of_live_classes < prev.number_of_live_classes
        } else if p.sum_of_slots != prev.sum_of_slots {
            p.sum_of_slots < prev.sum_of_slots
        } else {
            p.sum_of_symmetries >= prev.sum_of_symmetries
        };
        out.inc("progress_checks");
        if !ok {
            out.fail(Fail::new("progress-not-monotone", "progress", format!("step {step} ({desc}): progress (classes, live, slots, symmetries) went from ({}, {}, {}, {}) to ({}, {}, {}, {})", prev.number_of_classes, prev.number_of_live_classes, prev.sum_of_slots, prev.sum_of_symmetries, p.number_of_classes, p.number_of_live_classes, p.sum_of_slots, p.sum_of_symmetries), cj()));
            return out;
        }
        prev = p;
        // record new equal pairs among handles (sample)
        while slots_at_record.len() < handles.len() {
            let k = slots_at_record.len();
            // (sparse: the returned invocation itself, without canonicalising it)
            slots_at_record.push(if sparse { handles[k].slots().iter().copied().collect() } else { eg.find_applied_id(&handles[k]).slots().iter().copied().collect() });
        }
        for _ in 0..6 {
            if handles.len() < 2 || sparse {
                break;
            }
            let (i, j) = (rng.below(handles.len()), rng.below(handles.len()));
            if i != j && eg.eq(&handles[i], &handles[j]) {
                equal_pairs.push((handles[i].clone(), handles[j].clone(), step));
            }
        }
        // re-check: all handles usable, slot sets only shrink; a sliding sample of recorded equalities still holds
        let check_all = step + 1 == len;
        if sparse && !check_all {
            // sparse monitoring: old handles are left untouched (no canonicalisation, hence no path compression) until the end
            continue;
        }
        let r = guard(|| -> Result<(), (String, String)> {
            for (k, hdl) in handles.iter().enumerate() {
                let f = eg.find_applied_id(hdl);
                if !eg.is_alive(f.id) {
                    return Err(("find-dead".into(), format!("find({hdl:?}) = {f:?} is not alive")));
                }
                let now: BTreeSet<Slot> = f.slots().iter().copied().collect();
                if !now.is_subset(&slots_at_record[k]) {
                    return Err(("slots-grew".into(), format!("handle #{k} {hdl:?}: slots {:?} at an earlier point, {now:?} now", slots_at_record[k])));
                }
                slots_at_record[k] = now;
                if !eg.eq(hdl, hdl) {
                    return Err(("handle-not-self-equal".into(), format!("eq({hdl:?}, itself) is false")));
                }
            }
            let n = equal_pairs.len();
            let m = if check_all { n } else { n.min(25) };
            for q in 0..m {
                let (a, b, at) = if check_all { &equal_pairs[q] } else { &equal_pairs[(q * 7919 + step) % n] };
                if !eg.eq(a, b) {
                    return Err(("equality-lost".into(), format!("eq({a:?}, {b:?}) held after step {at} and is false after step {step} ({desc})")));
                }
            }
            Ok(())
        });
        out.add("recheck_rounds", 1);
        match r {
            Ok(Ok(())) => {}
            Ok(Err((sig, d))) => {
                out.fail(Fail::new("monotonicity", sig, d, cj()));
                return out;
            }
            Err(p) => {
                out.fail(Fail::panic("old-handle-panics", &p, &format!("re-check after step {step} ({desc})"), cj()));
                return out;
            }
        }
        if step % 10 == 9 || check_all {
            // extraction from every old handle
            let r = guard(|| {
                let ex = Extractor::<LSym, AstSize>::new(&eg, AstSize);
                for h in &handles {
                    let t = ex.extract(h, &eg);
                    let back = lookup_rec_expr(&t, &eg);
                    match back {
                        Some(b) if eg.eq(&b, h) => {}
                        _ => return Some(format!("extract({h:?}) = {t}, which does not look up to the handle")),
                    }
                }
                None
            });
            out.add("extractions_from_old_handles", handles.len() as u64);
            match r {
                Ok(None) => {}
                Ok(Some(d)) => {
                    out.fail(Fail::new("monotonicity", "extract-from-old-handle", d, cj()));
                    return out;
                }
                Err(p) => {
                    out.fail(Fail::panic("old-handle-panics", &p, &format!("extraction after step {step}"), cj()));
                    return out;
                }
            }
        }
    }
    out.add("equal_pairs_recorded", equal_pairs.len() as u64);
    out.add("handles_recorded", handles.len() as u64);
    out.inc("histories_completed");
    if equal_pairs.len() >= 3 {
        let mut h = 0;
        for l in &log {
            h = Rng::mix(h, crate::rng::fnv(l));
        }
        out.nontrivial = Some(h);
    }
    out.sample = Some(J::obj(vec![("mode", J::s("long-history")), ("first_ops", J::arr_s(&log[..log.len().min(10)].to_vec())), ("length", J::I(len as i64))]));
    out
}

/// C13 on declarative histories (generator families incl. the congruence chain): at random points all handles are compared and
/// equal pairs recorded (which canonicalises them), at other points nothing is touched; at the end every recorded equality must
/// still hold and every old handle must canonicalise to a live class whose slots are a subset of what was seen before.
pub fn c13_hist_case(rng: &mut Rng) -> CaseOut {
    let mut out = CaseOut::default();
    let lang = &LSYM;
    let ns = rng.range(2, 3);
    let cfg = GenCfg { lang, ops: SYM_OPS_BASIC.to_vec(), ns, max_depth: 2, max_names: 4, shadow: rng.chance(1, 3) };
    let h = gen_history(rng, &cfg, 6, 5);
    let text = h.text(lang);
    let cj = h.json(lang);
    let mut eg: EGraph<LSym> = EGraph::default();
    let mut ids: BTreeMap<usize, AppliedId> = BTreeMap::new();
    let mut recorded: Vec<(usize, usize, usize)> = vec![];
    let mut seen_slots: BTreeMap<usize, BTreeSet<Slot>> = BTreeMap::new();
    let p_observe = rng.below(4); // 0: never in between .. 3: often
    for (step, op) in h.ops.iter().enumerate() {
        let r = guard(|| match op {
            HOp::Add(i) => {
                let id = eg.add_expr(crate::sym::to_rec::<LSym>(lang, &h.terms[*i]));
                ids.insert(*i, id);
                None
            }
            HOp::Union(a, b) => {
                for t in [a, b] {
                    if !ids.contains_key(t) {
                        let id = eg.add_expr(crate::sym::to_rec::<LSym>(lang, &h.terms[*t]));
                        ids.insert(*t, id);
                    }
                }
                let (x, y) = (ids[a].clone(), ids[b].clone());
                eg.union(&x, &y);
                Some((*a, *b))
            }
        });
        match r {
            Err(_) => {
                out.inconclusive = Some("operation panicked (reported by C02/C08)".into());
                return out;
            }
            Ok(Some((a, b))) => recorded.push((a, b, step)), // the asserted pair is equal from now on (not queried now)
            Ok(None) => {}
        }
        let last = step + 1 == h.ops.len();
        if last || rng.below(4) < p_observe {
            let keys: Vec<usize> = ids.keys().copied().collect();
            let r = guard(|| -> Result<(), (String, String)> {
                for (a, b, at) in &recorded {
                    if !eg.eq(&ids[a], &ids[b]) {
                        return Err(("equality-lost".into(), format!("after step {step} ({}): {} = {} held after step {at} and is not reported any more", text[step], h.terms[*a].text(lang, &pname), h.terms[*b].text(lang, &pname))));
                    }
                }
                // the same equalities at the level of the terms: looked up afresh, both terms are found, equal to each other and
                // to the handles that insertion returned
                for (a, b, at) in &recorded {
                    let la = lookup_rec_expr(&crate::sym::to_rec::<LSym>(lang, &h.terms[*a]), &eg);
                    let lb = lookup_rec_expr(&crate::sym::to_rec::<LSym>(lang, &h.terms[*b]), &eg);
                    let ok = match (&la, &lb) {
                        (Some(x), Some(y)) => eg.eq(x, y) && eg.eq(x, &ids[a]) && eg.eq(y, &ids[b]),
                        _ => false,
                    };
                    if !ok {
                        return Err(("equality-lost-for-terms".into(), format!("after step {step} ({}): {} = {} held after step {at}; looked up afresh the two terms give {la:?} and {lb:?} (handles {:?}, {:?})", text[step], h.terms[*a].text(lang, &pname), h.terms[*b].text(lang, &pname), ids[a], ids[b])));
                    }
                }
                for k in &keys {
                    let f = eg.find_applied_id(&ids[k]);
                    if !eg.is_alive(f.id) || f.m.keys() != eg.slots(f.id) {
                        return Err(("old-handle-not-canonical".into(), format!("after step {step}: the handle of {} canonicalises to {f:?}, class slots {:?}", h.terms[*k].text(lang, &pname), eg.slots(f.id))));
                    }
                    let now: BTreeSet<Slot> = f.slots().iter().copied().collect();
                    if let Some(old) = seen_slots.get(k) {
                        if !now.is_subset(old) {
                            return Err(("slots-grew".into(), format!("after step {step}: {} had slots {old:?}, now {now:?}", h.terms[*k].text(lang, &pname))));
                        }
                    }
                    seen_slots.insert(*k, now);
                }
                Ok(())
            });
            out.inc("observation_points");
            match r {
                Ok(Ok(())) => {}
                Ok(Err((sig, d))) => {
                    out.fail(Fail::new("monotonicity", sig, d, cj));
                    return out;
                }
                Err(p) => {
                    out.fail(Fail::panic("old-handle-panics", &p, &format!("observation after step {step}"), cj));
                    return out;
                }
            }
            // newly equal pairs are recorded as well
            for (x, a) in keys.iter().enumerate() {
                for b in keys.iter().skip(x + 1) {
                    if recorded.len() < 60 && eg.eq(&ids[a], &ids[b]) && !recorded.iter().any(|r| (r.0, r.1) == (*a, *b)) {
                        recorded.push((*a, *b, step));
                    }
                }
            }
        }
    }
    out.add("equal_pairs_recorded", recorded.len() as u64);
    out.inc("declarative_histories");
    if h.families.contains(&"congruence-chain") {
        out.inc("family_congruence_chain");
    }
    if recorded.len() >= 2 {
        out.nontrivial = Some(h.hash(lang));
    }
    out.sample = Some(J::obj(vec![("mode", J::s("declarative-history")), ("history", J::arr_s(&text)), ("observe_probability_quarters", J::I(p_observe as i64))]));
    out
}

pub fn run(args: &Args, rep: &mut Rep) {
    if args.prop == "C13" && args.param_u("hist", 0) == 1 {
        drive(args, rep, |rng, _| c13_hist_case(rng));
        return;
    }
    match args.prop.as_str() {
        "C12" => {
            let n = args.param_u("orders", 4) as usize;
            let with_q = args.param_u("with_q", 0) == 1;
            drive(args, rep, move |rng, _| c12_case(rng, n, with_q));
        }
        "C11" => {
            let lazy = args.param_u("lazy", 0) == 1;
            let with_q = args.param_u("with_q", 0) == 1;
            drive(args, rep, move |rng, _| c11_case(rng, lazy, with_q));
        }
        _ => {
            let lo = args.param_u("len_lo", 30) as usize;
            let hi = args.param_u("len_hi", 120) as usize;
            let with_q = args.param_u("with_q", 0) == 1;
            let sparse = args.param_u("sparse", 0) == 1;
            drive(args, rep, move |rng, _| c13_case(rng, lo, hi, with_q, sparse));
        }
    }
}
