//! C08 — no operation sequence panics or leaves the e-graph inconsistent.
//! Hostile mixed histories; after every public call: built-in check(), structural invariants, handle invariants.
use crate::core::*;
use crate::gen::*;
use crate::json::J;
use crate::langs::*;
use crate::rng::Rng;
use crate::sym::*;
use crate::tm::*;
use slotted_egraphs::*;
use std::collections::BTreeMap;

pub fn sym_rules(r: &mut Rng) -> Vec<(String, Rewrite<LSym>)> {
    sym_rules_n::<()>(r)
}

/// the same rule pool for an e-graph over `LSym` that carries an analysis
pub fn sym_rules_n<N: Analysis<LSym> + 'static>(r: &mut Rng) -> Vec<(String, Rewrite<LSym, N>)> {
    let all: Vec<(&str, &str, &str)> = vec![
        ("app-comm", "(app ?a ?b)", "(app ?b ?a)"),
        ("pair-swap", "(pair ?a ?b)", "(pair ?b ?a)"),
        ("u-elim", "(u (u ?a))", "?a"),
        ("u-intro", "(w ?a)", "(u (w ?a))"),
        ("f-comm", "(f $x $y)", "(f $y $x)"),
        ("h-rot", "(h $x $y $z)", "(h $y $z $x)"),
        ("k-drop", "(k $x $y)", "(g $x)"),
        ("beta", "(app (lam $x ?b) ?t)", "?b[(var $x) := ?t]"),
        ("eta-ish", "(lam $x (app ?f (var $x)))", "(u ?f)"),
        ("let-elim", "(let $x ?b ?e)", "(app (lam $x ?b) ?e)"),
        ("sum-swap", "(sum ?a $x (sum ?b $y ?c))", "(sum ?b $y (sum ?a $x ?c))"),
        ("lam-dup", "(lam $x ?b)", "(lam $y (let $x ?b (var $y)))"),
        ("app-assoc", "(app ?a (app ?b ?c))", "(app (app ?a ?b) ?c)"),
        ("pair-fst", "(pair ?a ?a)", "(u ?a)"),
        ("idx-var", "(idx $x (var $x))", "(g $x)"),
        ("bb-swap", "(bb $x $y ?a)", "(bb $y $x ?a)"),
        ("q-rot", "(q $a $b $c $d)", "(q $b $c $d $a)"),
        ("c-d", "c", "d"),
        ("h-dup", "(h $x $y $x)", "(f $x $y)"),
        ("k-const", "(lam $x (lam $y (var $x)))", "(u (lam $z (var $z)))"),
        ("q-pairs", "(q $a $b $a $b)", "(pair (f $a $b) (f $b $a))"),
    ];
    let mut out = vec![];
    for (n, l, rr) in all {
        if r.chance(1, 3) {
            // pattern variable names vary with the case (substitutions are hash maps keyed by the name)
            let (l2, r2) = (crate::props::model::ren_vars(l), crate::props::model::ren_vars(rr));
            out.push((format!("{n}: {l2} => {r2}"), Rewrite::new(n, &l2, &r2)));
        }
    }
    out
}

pub fn random_bijection(r: &mut Rng, from: &SmallHashSet<Slot>, ns: usize) -> SlotMap {
    // map the class slots to distinct user names p0..p(ns+k)
    let mut targets: Vec<Name> = (0..(ns.max(from.len()) + 2) as Name).collect();
    r.shuffle(&mut targets);
    let mut m = SlotMap::new();
    let mut keys: Vec<Slot> = from.iter().copied().collect();
    keys.sort();
    for (i, k) in keys.into_iter().enumerate() {
        m.insert(k, slot_of(targets[i]));
    }
    m
}

pub fn run_case(rng: &mut Rng, len_lo: usize, len_hi: usize) -> CaseOut {
    let mut out = CaseOut::default();
    let lang = &LSYM;
    let ns = rng.range(2, 4);
    let cfg = GenCfg { lang, ops: SYM_OPS_ALL.to_vec(), ns, max_depth: rng.range(1, 3), max_names: 4, shadow: rng.chance(1, 2) };
    let mut eg: EGraph<LSym> = if rng.chance(1, 4) { EGraph::with_subst_method::<ExtractionSubst>(()) } else { EGraph::default() };
    let mut handles: Vec<AppliedId> = vec![];
    let mut terms: Vec<Tm> = vec![];
    let mut log: Vec<String> = vec![];
    let len = rng.range(len_lo, len_hi);
    let mut events = (0u64, 0u64); // redundancy, symmetry
    let p0 = eg.progress();
    let mut prev = (p0.number_of_live_classes, p0.sum_of_slots, p0.sum_of_symmetries, p0.number_of_classes);
    let rules = sym_rules(rng);

    for step in 0..len {
        let roll = rng.below(100);
        let mut desc = String::new();
        let res = guard(|| {
            if roll < 30 || handles.len() < 2 {
                // insert a term (sometimes a family member derived from an earlier one)
                let t = if !terms.is_empty() && rng.chance(1, 3) {
                    let i = rng.below(terms.len());
                    let c = terms[i].canon();
                    let fv: Vec<Name> = c.fv().into_iter().collect();
                    if fv.len() >= 2 {
                        let mut img = fv.clone();
                        rng.shuffle(&mut img);
                        let m: BTreeMap<Name, Name> = fv.iter().copied().zip(img).collect();
                        c.rename(&m)
                    } else {
                        gen_closed_term(rng, &cfg)
                    }
                } else {
                    gen_closed_term(rng, &cfg)
                };
                let syn = rng.chance(1, 4);
                desc = format!("{} {}", if syn { "addsyn" } else { "add" }, t.text(lang, &pname));
                let re = to_rec::<LSym>(lang, &t);
                let id = if syn { eg.add_syn_expr(re) } else { eg.add_expr(re) };
                handles.push(id);
                terms.push(t);
            } else if roll < 60 {
                let i = rng.below(handles.len());
                let j = if rng.chance(1, 5) { i } else { rng.below(handles.len()) };
                let a = handles[i].clone();
                let mut b = handles[j].clone();
                if rng.chance(1, 3) {
                    // re-invoke b with an arbitrary bijective renaming of its arguments
                    let f = eg.find_applied_id(&b);
                    let bij = random_bijection(rng, &eg.slots(f.id), ns);
                    b = AppliedId::new(f.id, bij);
                }
                desc = format!("union #{i} {a:?} = #{j} {b:?}");
                eg.union(&a, &b);
            } else if roll < 70 {
                // hand-built node over earlier handles
                let i = rng.below(handles.len());
                let j = rng.below(handles.len());
                let a = eg.find_applied_id(&handles[i]);
                let b = eg.find_applied_id(&handles[j]);
                let a = AppliedId::new(a.id, random_bijection(rng, &eg.slots(a.id), ns));
                let b = AppliedId::new(b.id, random_bijection(rng, &eg.slots(b.id), ns));
                let x = slot_of(rng.below(ns + 1) as Name);
                let n = match rng.below(6) {
                    0 => LSym::App(a, b),
                    1 => LSym::Pair(a, b),
                    2 => LSym::U(a),
                    3 => LSym::Lam(Bind { slot: x, elem: a }),
                    4 => LSym::Sum(a, Bind { slot: x, elem: b }),
                    _ => LSym::Idx(x, a),
                };
                desc = format!("addnode {n:?}");
                let id = eg.add(n);
                handles.push(id);
            } else if roll < 80 {
                if eg.total_number_of_nodes() < 90 && !rules.is_empty() {
                    let k = rng.range(1, rules.len());
                    let names: Vec<String> = rules[..k].iter().map(|x| x.0.clone()).collect();
                    desc = format!("rewrite {names:?}");
                    let rs: Vec<Rewrite<LSym>> = rules[..k].iter().map(|(d, _)| {
                        let (n, rest) = d.split_once(": ").unwrap();
                        let (l, rr) = rest.split_once(" => ").unwrap();
                        Rewrite::new(n, l, rr)
                    }).collect();
                    apply_rewrites(&mut eg, &rs);
                } else {
                    desc = "noop".into();
                }
            } else if roll < 90 {
                let i = rng.below(handles.len());
                desc = format!("extract #{i} {:?}", handles[i]);
                let ex = Extractor::<LSym, AstSize>::new(&eg, AstSize);
                let t = ex.extract(&handles[i], &eg);
                let _ = ex.get_best_cost::<()>(&eg.find_applied_id(&handles[i]));
                desc = format!("{desc} -> {t}");
            } else {
                let pats = ["(app ?a ?b)", "(f $x $y)", "(lam $x ?b)", "(u ?a)", "(app ?a ?a)", "(sum ?a $x ?b)", "(h $x $y $x)", "(pair (u ?a) ?a)"];
                let p = *rng.pick(&pats);
                desc = format!("ematch {p}");
                let pat: Pattern<LSym> = Pattern::parse(p).unwrap();
                let ms = ematch_all(&eg, &pat);
                desc = format!("{desc} -> {} matches", ms.len());
            }
        });
        log.push(desc.clone());
        let casej = || J::obj(vec![("log", J::arr_s(&log)), ("ns", J::I(ns as i64))]);
        if let Err(p) = res {
            out.fail(Fail::panic("panic", &p, &format!("step {step}: {desc}"), casej()));
            out.inc("histories_aborted");
            return out;
        }
        out.inc("operations");
        let (n, bad) = structural_invariants(&eg);
        out.add("invariant_checks", n);
        if let Some((sig, d)) = bad {
            out.fail(Fail::new("inconsistent", sig, format!("after step {step} ({desc}): {d}"), casej()));
            out.inc("histories_aborted");
            return out;
        }
        let (n, bad) = handle_invariants(&eg, &handles);
        out.add("invariant_checks", n);
        if let Some((sig, d)) = bad {
            out.fail(Fail::new("inconsistent", sig, format!("after step {step} ({desc}): {d}"), casej()));
            out.inc("histories_aborted");
            return out;
        }
        let p = eg.progress();
        let cur = (p.number_of_live_classes, p.sum_of_slots, p.sum_of_symmetries, p.number_of_classes);
        if cur.3 == prev.3 && cur.0 == prev.0 && cur.1 < prev.1 {
            events.0 += 1;
        }
        if cur.3 == prev.3 && cur.0 == prev.0 && cur.1 == prev.1 && cur.2 > prev.2 {
            events.1 += 1;
        }
        prev = cur;
    }
    out.add("redundancy_events", events.0);
    out.add("symmetry_events", events.1);
    out.inc("histories_completed");
    if events.0 + events.1 > 0 && len >= 10 {
        let mut h = 0;
        for l in &log {
            h = Rng::mix(h, crate::rng::fnv(l));
        }
        out.nontrivial = Some(h);
    }
    out.sample = Some(J::obj(vec![("mode", J::s("mixed-history")), ("log", J::arr_s(&log[..log.len().min(12)].to_vec()))]));
    out
}

pub fn run(args: &Args, rep: &mut Rep) {
    let lo = args.param_u("len_lo", 8) as usize;
    let hi = args.param_u("len_hi", 30) as usize;
    let mode = args.param_s("mode", "mixed");
    let sparse = args.param_u("sparse", 0) == 1;
    if mode == "hist" {
        let lang = args.param_s("lang", "sym");
        drive(args, rep, move |rng, _| {
            SPARSE.with(|s| s.set(sparse));
            match lang.as_str() {
                "sym" => run_hist_case(rng),
                "all" => match rng.below(3) {
                    0 => run_hist_case_lang(rng, "arith"),
                    1 => run_hist_case_lang(rng, "pay"),
                    _ => run_hist_case_lang(rng, "nest"),
                },
                l => run_hist_case_lang(rng, l),
            }
        });
    } else {
        drive(args, rep, move |rng, _| if rng.chance(1, 40) { tower_case(rng) } else { run_case(rng, lo, hi) });
    }
}

/// Deep sharing: `t0 = leaf`, `t(k+1) = app(tk, tk)` (or `ite(tk, tk, tk)`), built node by node. The term denoted by the top class
/// has more than 2^64 nodes although the e-graph has a few dozen; every operation that consults a size (extractor tables, the
/// convenience extraction functions, rewriting with the extraction-based substitution method) has to complete on it.
pub fn tower_case(rng: &mut Rng) -> CaseOut {
    let mut out = CaseOut::default();
    let ternary = rng.chance(1, 2);
    let levels = if ternary { rng.range(38, 50) } else { rng.range(60, 80) };
    let extraction_subst = rng.chance(1, 2);
    let leaf = *rng.pick(&["(var $p0)", "c", "(f $p0 $p1)"]);
    let desc = format!("tower of {levels} levels of {} over {leaf}, extraction_subst={extraction_subst}", if ternary { "ite(t,t,t)" } else { "app(t,t)" });
    let cj = J::obj(vec![("setup", J::s(desc.clone()))]);
    let mut eg: EGraph<LSym> = if extraction_subst { EGraph::with_subst_method::<ExtractionSubst>(()) } else { EGraph::default() };
    let mut handles = vec![];
    let r = guard(|| {
        let base = eg.add_expr(RecExpr::parse(leaf).unwrap());
        handles.push(base.clone());
        let mut t = base.clone();
        for _ in 0..levels {
            t = if ternary { eg.add(LSym::Ite(t.clone(), t.clone(), t.clone())) } else { eg.add(LSym::App(t.clone(), t.clone())) };
        }
        handles.push(t.clone());
        // an unrelated small redex in the same e-graph
        let redex = eg.add_expr(RecExpr::parse("(app (lam $p501 (pair (var $p501) d)) (g $p2))").unwrap());
        handles.push(redex.clone());
        // sizes are consulted for every class
        let ex = Extractor::<LSym, AstSize>::new(&eg, AstSize);
        let top_cost = ex.get_best_cost::<()>(&eg.find_applied_id(&t));
        let base_cost = ex.get_best_cost::<()>(&eg.find_applied_id(&base));
        assert!(top_cost >= base_cost, "harness: tower cost below leaf cost");
        let small = ex.extract(&base, &eg);
        let small2 = ast_size_extract::<LSym, ()>(&redex, &eg);
        let _ = (small, small2);
        // the top is equal to a constant: extraction of the (now small) top class
        if rng.chance(1, 2) {
            let k = eg.add_expr(RecExpr::parse("e").unwrap());
            if leaf == "c" {
                eg.union(&t, &k);
                let ex2 = Extractor::<LSym, AstSize>::new(&eg, AstSize);
                let got = ex2.extract(&t, &eg);
                assert!(got.to_string() == "e", "harness: expected e");
            }
        }
        let rws: Vec<Rewrite<LSym>> = vec![Rewrite::new("beta", "(app (lam $x ?b) ?t)", "?b[(var $x) := ?t]"), Rewrite::new("pair-swap", "(pair ?a ?b)", "(pair ?b ?a)")];
        apply_rewrites(&mut eg, &rws);
    });
    out.inc("towers");
    if let Err(p) = r {
        out.fail(Fail::panic("panic", &p, &desc, cj));
        return out;
    }
    let (n, bad) = structural_invariants(&eg);
    out.add("invariant_checks", n);
    if let Some((sig, d)) = bad {
        out.fail(Fail::new("inconsistent", sig, format!("{desc}: {d}"), cj.clone()));
        return out;
    }
    let (n, bad) = handle_invariants(&eg, &handles);
    out.add("invariant_checks", n);
    if let Some((sig, d)) = bad {
        out.fail(Fail::new("inconsistent", sig, format!("{desc}: {d}"), cj));
        return out;
    }
    out.inc("histories_completed");
    out.nontrivial = Some(crate::rng::fnv(&desc));
    out.sample = Some(J::obj(vec![("mode", J::s("tower")), ("setup", J::s(desc))]));
    out
}

// ---------------------------------------------------------------------------------------------
// declarative histories (adds + unions of generated terms): shrinkable, replayable with `vworker script`

thread_local! {
    pub static SPARSE: std::cell::Cell<bool> = std::cell::Cell::new(false);
}

pub fn eval_struct(h: &History, extra_ops: bool) -> CaseOut {
    eval_struct_lang::<LSym>(&LSYM, h, extra_ops)
}

pub fn eval_struct_lang<L: Language + 'static>(lang: &'static LangSig, h: &History, extra_ops: bool) -> CaseOut {
    let mut out = CaseOut::default();
    // sparse: invariants (which canonicalise every id, i.e. compress paths) are evaluated only after the last operation
    let sparse = SPARSE.with(|s| s.get());
    let cj = h.json(lang);
    let mut eg: EGraph<L> = EGraph::default();
    let mut ids: BTreeMap<usize, AppliedId> = BTreeMap::new();
    let text = h.text(lang);
    let mut red = 0;
    let mut sym = 0;
    let p0 = eg.progress();
    let mut prev = (p0.number_of_live_classes, p0.sum_of_slots, p0.sum_of_symmetries, p0.number_of_classes);
    for (step, op) in h.ops.iter().enumerate() {
        let r = guard(|| match op {
            HOp::Add(i) => {
                let id = eg.add_expr(to_rec::<L>(lang, &h.terms[*i]));
                ids.insert(*i, id);
            }
            HOp::Union(a, b) => {
                for t in [a, b] {
                    if !ids.contains_key(t) {
                        let id = eg.add_expr(to_rec::<L>(lang, &h.terms[*t]));
                        ids.insert(*t, id);
                    }
                }
                let (x, y) = (ids[a].clone(), ids[b].clone());
                eg.union(&x, &y);
            }
        });
        if let Err(p) = r {
            out.fail(Fail::panic("panic", &p, &format!("step {step}: {}", text[step]), cj.clone()));
            return out;
        }
        out.inc("operations");
        if sparse && step + 1 < h.ops.len() {
            // only the (non-intrusive) progress measure is read between operations
            let p = eg.progress();
            let cur = (p.number_of_live_classes, p.sum_of_slots, p.sum_of_symmetries, p.number_of_classes);
            if cur.3 == prev.3 && cur.0 == prev.0 && cur.1 < prev.1 {
                red += 1;
            }
            if cur.3 == prev.3 && cur.0 == prev.0 && cur.1 == prev.1 && cur.2 > prev.2 {
                sym += 1;
            }
            prev = cur;
            continue;
        }
        let hs: Vec<AppliedId> = ids.values().cloned().collect();
        if sparse {
            // first the old handles, untouched since they were returned; then the intrusive checks
            let (n, bad) = handle_invariants(&eg, &hs);
            out.add("invariant_checks", n);
            if let Some((sig, d)) = bad {
                out.fail(Fail::new("inconsistent", sig, format!("after step {step} ({}): {d}", text[step]), cj.clone()));
                return out;
            }
            for a in &hs {
                for b in &hs {
                    if let Err(p) = guard(|| eg.eq(a, b)) {
                        out.fail(Fail::panic("panic", &p, &format!("eq of two old handles after step {step}"), cj.clone()));
                        return out;
                    }
                }
            }
        }
        let (n, bad) = structural_invariants(&eg);
        out.add("invariant_checks", n);
        if let Some((sig, d)) = bad {
            out.fail(Fail::new("inconsistent", sig, format!("after step {step} ({}): {d}", text[step]), cj.clone()));
            return out;
        }
        let (n, bad) = handle_invariants(&eg, &hs);
        out.add("invariant_checks", n);
        if let Some((sig, d)) = bad {
            out.fail(Fail::new("inconsistent", sig, format!("after step {step} ({}): {d}", text[step]), cj.clone()));
            return out;
        }
        if extra_ops {
            // extraction must not panic either
            let r = guard(|| {
                let ex = Extractor::<L, AstSize>::new(&eg, AstSize);
                for h in &hs {
                    let _ = ex.extract(h, &eg);
                }
            });
            if let Err(p) = r {
                out.fail(Fail::panic("panic", &p, &format!("extraction after step {step}: {}", text[step]), cj.clone()));
                return out;
            }
        }
        let p = eg.progress();
        let cur = (p.number_of_live_classes, p.sum_of_slots, p.sum_of_symmetries, p.number_of_classes);
        if cur.3 == prev.3 && cur.0 == prev.0 && cur.1 < prev.1 {
            red += 1;
        }
        if cur.3 == prev.3 && cur.0 == prev.0 && cur.1 == prev.1 && cur.2 > prev.2 {
            sym += 1;
        }
        prev = cur;
    }
    out.add("redundancy_events", red);
    out.add("symmetry_events", sym);
    out.inc("histories_completed");
    if red + sym > 0 {
        out.nontrivial = Some(h.hash(lang));
    }
    out.sample = Some(J::obj(vec![("mode", J::s("declarative-history")), ("history", J::arr_s(&text))]));
    out
}

/// other workload languages: plain random terms and unions (the symmetry/redundancy families are specific to LSym's operators)
pub fn run_hist_case_lang(rng: &mut Rng, which: &str) -> CaseOut {
    let (lang, ops): (&'static LangSig, Vec<&'static str>) = match which {
        "arith" => (&LARITH, vec!["#num", "var", "add", "mul", "sum", "let"]),
        "pay" => (&LPAY, vec!["lam", "app", "var", "two", "cst", "neg", "flag", "idx", "nil", "#num", "#sym"]),
        // (bs / bbs bind over a bare slot; the term model has no field kind for that, they are covered by C16)
        _ => (&LNEST, vec!["nb", "b2", "mix", "bba", "three", "ch", "big", "tag", "kk", "#num"]),
    };
    let ns = rng.range(2, 3);
    let cfg = GenCfg { lang, ops, ns, max_depth: rng.range(1, 3), max_names: 5, shadow: rng.chance(1, 3) };
    let n = rng.range(3, 7);
    let mut terms: Vec<Tm> = (0..n).map(|_| gen_closed_term(rng, &cfg)).collect();
    // renamed copies make symmetric / redundant situations likely
    for _ in 0..rng.range(0, 2) {
        let t = terms[rng.below(terms.len())].canon();
        let fv: Vec<Name> = t.fv().into_iter().collect();
        let mut img = fv.clone();
        rng.shuffle(&mut img);
        terms.push(t.rename(&fv.iter().copied().zip(img).collect()));
    }
    let mut ops_h: Vec<HOp> = (0..terms.len()).map(HOp::Add).collect();
    for _ in 0..rng.range(1, 5) {
        ops_h.push(HOp::Union(rng.below(terms.len()), rng.below(terms.len())));
    }
    let h = History { terms, ops: ops_h, ns, families: vec![] };
    let run = |h: &History| match which {
        "arith" => eval_struct_lang::<LArith>(lang, h, true),
        "pay" => eval_struct_lang::<LPay>(lang, h, true),
        _ => eval_struct_lang::<LNest>(lang, h, true),
    };
    let mut out = run(&h);
    if let Some(f) = out.fails.first().cloned() {
        let small = shrink_history(&h, &|h2: &History| run(h2).fails.iter().any(|g| g.kind == f.kind && g.sig == f.sig));
        if let Some(g) = run(&small).fails.into_iter().find(|g| g.kind == f.kind && g.sig == f.sig) {
            out.fails = vec![g];
        }
    }
    out.inc(match which { "arith" => "histories_arith", "pay" => "histories_pay", _ => "histories_nest" });
    out
}

pub fn run_hist_case(rng: &mut Rng) -> CaseOut {
    let lang = &LSYM;
    let ns = rng.range(2, 4);
    let cfg = GenCfg { lang, ops: SYM_OPS_ALL.to_vec(), ns, max_depth: rng.range(0, 2), max_names: 4, shadow: rng.chance(1, 3) };
    let h = gen_history(rng, &cfg, 7, 7);
    let mut out = eval_struct(&h, true);
    if let Some(f) = out.fails.first().cloned() {
        let small = shrink_history(&h, &|h2: &History| eval_struct(h2, true).fails.iter().any(|g| g.kind == f.kind && g.sig == f.sig));
        if let Some(g) = eval_struct(&small, true).fails.into_iter().find(|g| g.kind == f.kind && g.sig == f.sig) {
            out.fails = vec![g];
        }
    }
    out
}
