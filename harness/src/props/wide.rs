//! C02 in the regime the ground closure oracle cannot decide: terms over five to eight names, nodes with two or three children over
//! the same class with different arguments. The oracle here is *construction*: every asserted equation l = r yields, for every
//! inserted term T and every position at which a subterm s of T is an instance theta(l) (theta injective), the consequence
//! T = T[s := theta(r)] (names of r that l lacks are mapped to new names) - one congruence step, always implied. Consequences of
//! consequences (two steps) are taken as well. The consequence term is inserted and must compare equal to T.
//! Soundness cannot be judged this way; this lane reports only missing equalities.
use crate::core::*;
use crate::json::J;
use crate::langs::*;
use crate::rng::Rng;
use crate::sym::*;
use crate::tm::*;
use slotted_egraphs::*;
use std::collections::{BTreeMap, BTreeSet};

fn match_inj(l: &Tm, s: &Tm, th: &mut BTreeMap<Name, Name>) -> bool {
    if l.op != s.op || l.slots.len() != s.slots.len() || l.kids.len() != s.kids.len() {
        return false;
    }
    for (a, b) in l.slots.iter().zip(&s.slots) {
        match th.get(a) {
            Some(x) => {
                if x != b {
                    return false;
                }
            }
            None => {
                if th.values().any(|v| v == b) {
                    return false;
                }
                th.insert(*a, *b);
            }
        }
    }
    l.kids.iter().zip(&s.kids).all(|((_, lk), (_, sk))| match_inj(lk, sk, th))
}

fn positions(t: &Tm, cur: &mut Vec<usize>, out: &mut Vec<Vec<usize>>) {
    out.push(cur.clone());
    for (i, (_, k)) in t.kids.iter().enumerate() {
        cur.push(i);
        positions(k, cur, out);
        cur.pop();
    }
}

fn at<'a>(t: &'a Tm, pos: &[usize]) -> &'a Tm {
    match pos.split_first() {
        None => t,
        Some((i, rest)) => at(&t.kids[*i].1, rest),
    }
}

fn replace(t: &Tm, pos: &[usize], new: &Tm) -> Tm {
    match pos.split_first() {
        None => new.clone(),
        Some((i, rest)) => {
            let mut c = t.clone();
            c.kids[*i].1 = replace(&t.kids[*i].1, rest, new);
            c
        }
    }
}

/// all one-step consequences of `eqs` on `t`: (position, equation index, orientation, result)
fn consequences(t: &Tm, eqs: &[(Tm, Tm)], fresh: &mut Name) -> Vec<(String, Tm)> {
    let mut pos = vec![];
    positions(t, &mut vec![], &mut pos);
    let mut out = vec![];
    for p in &pos {
        let s = at(t, p);
        for (ei, (a, b)) in eqs.iter().enumerate() {
            for (l, r, o) in [(a, b, "->"), (b, a, "<-")] {
                let mut th = BTreeMap::new();
                if match_inj(l, s, &mut th) {
                    let used: BTreeSet<Name> = t.all_names();
                    for n in r.fv() {
                        if !th.contains_key(&n) {
                            while used.contains(fresh) || th.values().any(|v| v == fresh) {
                                *fresh += 1;
                            }
                            th.insert(n, *fresh);
                            *fresh += 1;
                        }
                    }
                    let s2 = r.rename(&th);
                    let t2 = replace(t, p, &s2);
                    if t2 != *t {
                        out.push((format!("equation #{ei} {o} at position {p:?}"), t2));
                    }
                }
            }
        }
    }
    out
}

pub fn run_case(rng: &mut Rng, c09: bool) -> CaseOut {
    let mut out = CaseOut::default();
    let lang = &LSYM;
    let nn = rng.range(5, 8) as Name;
    let arity = |o: &str| match o { "g" => 1, "f" | "k" => 2, "h" => 3, _ => 4 };
    let leaf = |rng: &mut Rng, op: &'static str, names: &[Name]| -> Tm {
        let mut v: Vec<Name> = names.to_vec();
        rng.shuffle(&mut v);
        v.truncate(arity(op));
        while v.len() < arity(op) {
            v.push(names[rng.below(names.len())]);
        }
        Tm::leaf(op, v)
    };
    let all: Vec<Name> = (0..nn).collect();
    // a wide term: two or three children; often the same leaf operator everywhere, on disjoint or overlapping blocks of names
    let wide = |rng: &mut Rng| -> Tm {
        let same = rng.chance(1, 2);
        let op0: &'static str = *rng.pick(&["f", "k", "h", "h", "q"]);
        let n = rng.range(2, 3);
        let disjoint = rng.chance(1, 2);
        let mut kids = vec![];
        let mut off = 0usize;
        for _ in 0..n {
            let op: &'static str = if same { op0 } else { *rng.pick(&["f", "k", "h", "g", "q"]) };
            let k = if disjoint && off + arity(op) <= all.len() {
                let block: Vec<Name> = all[off..off + arity(op)].to_vec();
                off += arity(op);
                Tm::leaf(op, block)
            } else {
                leaf(rng, op, &all)
            };
            let k = if rng.chance(1, 5) { Tm::node("u", vec![], vec![(vec![], k)]) } else { k };
            kids.push((vec![], k));
        }
        let core = if n == 3 { Tm::node("ite", vec![], kids) } else { Tm::node(if rng.chance(1, 2) { "app" } else { "pair" }, vec![], kids) };
        if rng.chance(1, 5) { Tm::node("idx", vec![all[rng.below(all.len())]], vec![(vec![], core)]) } else { core }
    };
    let w = wide(rng);
    let mut terms: Vec<Tm> = vec![w.clone()];
    if rng.chance(1, 2) {
        terms.push(wide(rng));
    }
    if rng.chance(1, 3) {
        terms.push(Tm::node("u", vec![], vec![(vec![], w.clone())]));
    }
    // equations
    let mut eqs: Vec<(Tm, Tm)> = vec![];
    let leaf_ops: Vec<&'static str> = {
        let mut v = vec![];
        let mut subs = vec![];
        for t in &terms {
            t.subterms(&mut subs);
        }
        for s in subs {
            if s.kids.is_empty() && !s.slots.is_empty() && !v.contains(&s.op) {
                v.push(s.op);
            }
        }
        v
    };
    let fresh_base: Name = 40;
    for _ in 0..rng.range(1, 3) {
        match rng.below(5) {
            0 | 1 if !leaf_ops.is_empty() => {
                // argument symmetry of a leaf operator
                let op = *rng.pick(&leaf_ops);
                let id: Vec<Name> = (0..arity(op) as Name).collect();
                let mut p = id.clone();
                if arity(op) >= 2 {
                    match rng.below(3) { 0 => p.swap(0, 1), 1 => p.rotate_left(1), _ => rng.shuffle(&mut p) }
                }
                if p != id {
                    eqs.push((Tm::leaf(op, id), Tm::leaf(op, p)));
                }
            }
            2 if !leaf_ops.is_empty() && rng.chance(1, 2) => {
                // the full symmetric group on the arguments of a leaf operator (a transposition and the rotation)
                let op = *rng.pick(&leaf_ops);
                let id: Vec<Name> = (0..arity(op) as Name).collect();
                if arity(op) >= 3 {
                    let (mut a, mut b) = (id.clone(), id.clone());
                    a.swap(0, 1);
                    b.rotate_left(1);
                    eqs.push((Tm::leaf(op, id.clone()), Tm::leaf(op, a)));
                    eqs.push((Tm::leaf(op, id), Tm::leaf(op, b)));
                }
            }
            2 if !leaf_ops.is_empty() => {
                // a leaf does not depend on one of its arguments
                let op = *rng.pick(&leaf_ops);
                let id: Vec<Name> = (0..arity(op) as Name).collect();
                let mut p = id.clone();
                let j = rng.below(p.len());
                p[j] = fresh_base + 5;
                eqs.push((Tm::leaf(op, id), Tm::leaf(op, p)));
            }
            3 => {
                // a wide term does not depend on one of its names
                let t = terms[rng.below(terms.len())].clone();
                let fv: Vec<Name> = t.fv().into_iter().collect();
                if !fv.is_empty() {
                    let x = fv[rng.below(fv.len())];
                    let m: BTreeMap<Name, Name> = [(x, fresh_base + 7)].into_iter().collect();
                    eqs.push((t.clone(), t.rename(&m)));
                }
            }
            _ => {
                // two leaf operators of the same arity agree (arguments exchanged)
                if leaf_ops.contains(&"f") || leaf_ops.contains(&"k") {
                    eqs.push((Tm::leaf("f", vec![0, 1]), Tm::leaf("k", vec![1, 0])));
                }
            }
        }
    }
    if eqs.is_empty() {
        out.inc("skipped_no_equation");
        return out;
    }
    // operations: insertions and unions interleaved in random order
    enum Op { Add(usize), Union(usize) }
    let mut ops: Vec<Op> = (0..terms.len()).map(Op::Add).chain((0..eqs.len()).map(Op::Union)).collect();
    rng.shuffle(&mut ops);
    let mut log = vec![];
    let mut eg: EGraph<LSym> = EGraph::default();
    let res = guard(|| {
        for o in &ops {
            match o {
                Op::Add(i) => {
                    log.push(format!("add {}", terms[*i].text(lang, &pname)));
                    eg.add_expr(to_rec::<LSym>(lang, &terms[*i]));
                }
                Op::Union(j) => {
                    let (l, r) = &eqs[*j];
                    log.push(format!("union {} = {}", l.text(lang, &pname), r.text(lang, &pname)));
                    let a = eg.add_expr(to_rec::<LSym>(lang, l));
                    let b = eg.add_expr(to_rec::<LSym>(lang, r));
                    eg.union(&a, &b);
                }
            }
        }
    });
    let cj = J::obj(vec![("log", J::arr_s(&log))]);
    if let Err(p) = res {
        out.fail(Fail::panic("panic", &p, "wide history", cj));
        return out;
    }
    out.inc("histories_completed");
    // consequences, one and two steps
    let mut fresh: Name = fresh_base + 20;
    let mut todo: Vec<(Tm, String, Tm)> = vec![];
    for t in &terms {
        for (why, t2) in consequences(t, &eqs, &mut fresh) {
            todo.push((t.clone(), why, t2));
        }
    }
    rng.shuffle(&mut todo);
    todo.truncate(24);
    let mut second: Vec<(Tm, String, Tm)> = vec![];
    for (t, why, t2) in todo.iter().take(8) {
        let mut c2 = consequences(t2, &eqs, &mut fresh);
        rng.shuffle(&mut c2);
        for (why2, t3) in c2.into_iter().take(2) {
            if t3 != *t {
                second.push((t.clone(), format!("{why}, then {why2}"), t3));
            }
        }
    }
    todo.extend(second);
    let mut judged = 0;
    for (t, why, t2) in todo {
        let r = guard(|| {
            let a = eg.add_expr(to_rec::<LSym>(lang, &t));
            // C09: the consequence term is represented already (equal through earlier unions of subterms): lookup finds it, inserting it
            // creates no class, and lookup agrees with insertion
            let before = eg.progress().number_of_classes;
            let lk = lookup_rec_expr(&to_rec::<LSym>(lang, &t2), &eg);
            let b = eg.add_expr(to_rec::<LSym>(lang, &t2));
            let created = eg.progress().number_of_classes - before;
            (eg.eq(&a, &b), lk.map(|x| eg.eq(&x, &b)), created)
        });
        let r = match r {
            Ok((e, lk, created)) => {
                if c09 {
                    out.inc("wide_known_terms_reinserted");
                    if created > 0 || lk != Some(true) {
                        out.fail(Fail::new("known-term-created-class", "wide-consequence", format!("{} is represented (it equals the inserted {} by {why}), but lookup gave {} and inserting it allocated {created} classes", t2.text(lang, &pname), t.text(lang, &pname), match lk { None => "None", Some(true) => "an equal invocation", Some(false) => "an unequal invocation" }), cj.clone()));
                        return out;
                    }
                    Ok(true)
                } else {
                    Ok(e)
                }
            }
            Err(p) => Err(p),
        };
        match r {
            Ok(true) => {}
            Ok(false) => {
                out.fail(Fail::new("incomplete-eq", "wide-consequence-missing", format!("{} = {} follows from the asserted equations ({why}), but the two inserted terms do not compare equal", t.text(lang, &pname), t2.text(lang, &pname)), cj.clone()));
                return out;
            }
            Err(p) => {
                out.fail(Fail::panic("panic", &p, "inserting a consequence", cj.clone()));
                return out;
            }
        }
        judged += 1;
        out.inc("wide_consequences_judged");
    }
    if judged > 0 {
        let mut hsh = 0;
        for l in &log {
            hsh = Rng::mix(hsh, crate::rng::fnv(l));
        }
        out.nontrivial = Some(hsh);
        if terms.iter().any(|t| t.fv().len() >= 5) {
            out.inc("wide_histories_with_five_or_more_names");
        }
    }
    out.sample = Some(J::obj(vec![("mode", J::s("wide")), ("log", J::arr_s(&log))]));
    out
}

pub fn run(args: &Args, rep: &mut Rep) {
    let c09 = args.prop == "C09wide";
    drive(args, rep, move |rng, _| run_case(rng, c09));
}
