"""Manifest texts per property."""
META = {}
NOT_APPLICABLE = {}

META["C19"] = {
    "technique": "reference-model monitor (BTreeMap) over exhaustive small and random long operation sequences",
    "design_ref": "DESIGN.md §4 C19",
    "text": "Every public SlotMap observable is compared with a BTreeMap reference after every step of every insert/remove sequence "
            "up to length 4 (quick) / 5 (thorough, exhaustive) over four slots, for every ordered pair of the 625 maps (binary "
            "operations, Eq/Hash/Ord independence of construction order) and for random long sequences beyond the inline capacity; "
            "held on what was enumerated, not a proof for larger maps.",
    "note": "Trusted: std BTreeMap and DefaultHasher; the four-slot universe mixes numeric, fresh and named slots; larger maps only sampled.",
}

META["C01"] = {
    "technique": "reference-oracle monitor: real EGraph::eq / slots vs brute-force ground congruence closure on generated histories",
    "design_ref": "DESIGN.md §3.4, §4 C01",
    "text": "Every eq answer and every returned slot set is compared, after every operation of thousands of generated add/union histories "
            "(symmetry, redundancy, self-reference and shadowing families), with an independent ground congruence closure; an 'e-graph equal, oracle "
            "unequal' answer or a dropped slot the oracle says the term depends on is a violation. Held on the histories explored (small terms, <=4 names).",
    "note": "Trusted: the 150-line ground closure and its pool-size argument (re-decided at a larger pool before reporting); histories are small.",
}
META["C02"] = {
    "technique": "reference-oracle monitor: brute-force ground congruence closure vs EGraph::eq after every union",
    "design_ref": "DESIGN.md §3.4, §4 C02",
    "text": "Same executions as C01, opposite direction: every equality the ground closure derives (asserted pairs, redundancy-only consequences, "
            "argument symmetries, symmetries exchanging a redundant with a non-redundant slot, self-referential equations) must be reported by eq "
            "immediately after the union returned, every provably redundant slot must be dropped, and no add/union may panic. Oracle derivations are sound at any pool size.",
    "note": "Trusted: soundness of the ground closure's derivations; coverage limited to small histories.",
}
META["C08"] = {
    "technique": "invariant hooks at quiescent points (after every public call) under hostile generated operation sequences, default and checks builds",
    "design_ref": "DESIGN.md §4 C08",
    "text": "Hostile mixed histories (inserts, hand-built nodes, unions, rewriting incl. substitution rules, extraction, matching) run against the real "
            "crate in the default and the checks build; after every call the built-in check() and the structural invariants of the statement are "
            "evaluated and the work lists must be empty (hook). A panic or a violated invariant is a violation; held on the sequences explored.",
    "note": "Trusted: the invariant formulations in harness/src/sym.rs; explanations builds are monitored under C07, not here (the statement names the default and the checks build).",
}

META["C10"] = {
    "technique": "exhaustive small-scope differential monitor against brute-force group closure (unions on leaves + group hook), random larger degrees",
    "design_ref": "DESIGN.md §4 C10",
    "text": "For every generator set of up to three permutations on up to four slots (exhaustive) and random sets on five and six slots, the symmetry "
            "answers of the real e-graph (eq on permuted copies after asserting the generators as unions) and every observable of the group structure "
            "(contains, all_perms, count, orbit, add_set's growth flag; through the add-only hook) are compared with brute-force closure; the "
            "redundant-slot variant is judged by the ground congruence oracle. Exhaustive for degree <= 4, sampled beyond.",
    "note": "Trusted: BFS closure on permutation tables; hook VGroup forwards to the private Group without logic; degrees 5-6 only sampled.",
}

META["C09"] = {
    "technique": "differential/metamorphic monitor at the API boundary: lookup vs add vs class-allocation counter vs ground-closure oracle on reachable e-graphs",
    "design_ref": "DESIGN.md §4 C09",
    "text": "On e-graphs reached by generated histories, probe terms that are known by construction to be represented (literal, alpha-renamed, "
            "slot-renamed, equal through earlier unions) and terms that may be absent are looked up and inserted; allocation is observed through the "
            "progress measure, non-modification of lookup through a fingerprint, returned slots through the ground-closure oracle. Held on the probes explored.",
    "note": "Trusted: the construction argument for 'represented' probes and the oracle for slot sets; absent probes are only checked for lookup/add agreement.",
}

META["C16"] = {
    "technique": "differential monitor: derived Language methods vs an independent scoping model, exhaustive over a 3-name alphabet plus random nodes",
    "design_ref": "DESIGN.md §4 C16",
    "text": "Every derived method that the e-graph relies on (weak_shape, slots, occurrence lists, to_syntax/from_syntax, apply_slotmap) is compared on generated node values of four "
            "languages with an independent model of scoping; canonicity is checked globally (shape <-> model-key tables over all nodes of a run). The harness builds against the in-tree "
            "derive crate, so edits to the macro are monitored. Held on the nodes explored.",
    "note": "Trusted: the scoping model; children carry at most four distinct argument slots.",
}
META["C17"] = {
    "technique": "online trace monitor with a recorder of all slots/names seen, over generated interleavings; behavioural hygiene lane by renaming metamorphism",
    "design_ref": "DESIGN.md §4 C17",
    "text": "A recorder observes every slot the user obtains in one thread and rejects a fresh slot that was obtainable before, a name that denotes two slots, two names for one slot, "
            "or a failed print/parse round trip, across hostile names at the boundaries of the encoding. Held on the interleavings explored.",
    "note": "Trusted: the recorder's bookkeeping; the fresh counter cannot be driven to exhaustion (2^29 calls) in a test.",
}
META["C18"] = {
    "technique": "round-trip oracle on generated values + mutation-based hostile input monitor (panic and well-formedness) for the three parsers",
    "design_ref": "DESIGN.md §4 C18",
    "text": "Generated terms, patterns (with substitution brackets) and multi-patterns of four languages must survive print/parse unchanged and print exactly as an independent "
            "printer does; mutated and random texts must never make a parser panic, and whatever is accepted must be well formed and stable. Held on the texts explored.",
    "note": "Trusted: the harness printer/generator; inputs are valid UTF-8 (the API takes &str).",
}

META["C11"] = {
    "technique": "metamorphic monitor: the same history under an injective renaming of the slot alphabet, all observables compared",
    "design_ref": "DESIGN.md §4 C11",
    "text": "Each generated history (insertions, unions, rewrite iterations) is executed under neutral names and under a hostile renaming (numeric vs textual, reversed internal order, "
            "fresh-like names, shuffled interning order) in separate threads; every equality answer, the class profile, per-term slots/symmetries, extracted costs and node counts must agree and "
            "returned slot sets must be the renamed originals. Held on the pairs explored.",
    "note": "Trusted: the observation function in harness/src/props/meta.rs; analysis data is covered by C14's lanes.",
}
META["C12"] = {
    "technique": "metamorphic monitor: permuted insertion/union orders and flipped orientations of one history, observables compared",
    "design_ref": "DESIGN.md §4 C12",
    "text": "The same term set and equation set is asserted in several random orders and orientations; the equality relation over all inserted terms under all relative namings, the "
            "number of live classes and every term's slot and symmetry count must not depend on the order. Differences are minimised. Held on the orders explored.",
    "note": "Trusted: observation function; histories are small (<= 6 terms, <= 5 unions).",
}
META["C13"] = {
    "technique": "online trace monitor with a recorder of earlier answers (equal pairs, handles, slot sets, progress) re-checked along long histories",
    "design_ref": "DESIGN.md §4 C13",
    "text": "Along long mixed histories every earlier answer is re-validated later: recorded equalities must persist, old handles must canonicalise, compare and extract, slot sets must "
            "only shrink and the progress measure must move lexicographically as documented, asserted at every step with the previous value in hand. Held on the histories explored.",
    "note": "Trusted: recorder bookkeeping; cases exceeding the wall-clock watchdog are counted inconclusive, never as violations.",
}

META["C06"] = {
    "technique": "differential monitor: Extractor vs an own least-fix-point (Bellman-Ford) over eg.enodes, plus membership/cost/slot oracles per query",
    "design_ref": "DESIGN.md §4 C06",
    "text": "For every live class, renamed invocation and old handle of generated e-graphs and three strictly monotone cost functions, the extracted term must be represented in exactly "
            "the queried invocation, its recomputed cost must equal the reported best cost, which must equal an independently computed minimum; result slots must be arguments or new. Held on the e-graphs explored.",
    "note": "Trusted: own fix-point over eg.enodes (shares the e-node listing with the crate, nothing else); e-graphs are small (< ~150 nodes).",
}
META["C05"] = {
    "technique": "result validation monitor: every returned substitution is re-instantiated with lookup only; purity checked by fingerprint before/after",
    "design_ref": "DESIGN.md §4 C05",
    "text": "Every substitution returned by ematch_all and multi_ematch on generated e-graphs (symmetric and redundant classes included) is validated: all variables bound, the instantiated "
            "pattern is represented without inserting, each multi-pattern equation holds; matching must leave the observable state untouched. Held on the matches explored.",
    "note": "Trusted: EGraph::lookup as the membership test (itself monitored by C09).",
}
META["C04"] = {
    "technique": "planted-instance monitor with run-time scope guards: known instances must fire within one apply_rewrites",
    "design_ref": "DESIGN.md §4 C04",
    "text": "Instances of random left patterns are planted (also only up to equality, and next to symmetric classes) and the single rule is applied once; the matching right-hand instance must then be "
            "represented and equal. The two documented limitations (redundant slots, re-bound pattern slots) are excluded by guards evaluated on the real e-graph. Held on the plantings explored.",
    "note": "Trusted: the construction of the planted substitution; completeness is judged after firing, not on the raw match list.",
}

META["C03"] = {
    "technique": "semantic model monitor: every e-node of every class is evaluated in a finite model (two models) after every rewrite iteration",
    "design_ref": "DESIGN.md §3.5, §4 C03",
    "text": "With rule sets that are valid in a finite model (prime field, summation and let binders), every e-node of every class and the originally inserted term must denote the same function of "
            "the class's slots after any number of iterations, with redundant slots randomised; both substitution methods, apply_rewrites and Runner. An invalid rule (kept as a probe) is caught, "
            "which shows the monitor can see capture and side-condition faults. Held on the runs explored.",
    "note": "Trusted: the evaluator and the validity of the pooled rules in their model; environments are exhaustive only for classes with few slots.",
}
META["C14"] = {
    "technique": "invariant hooks after every public call: datum = join of make over current e-nodes, cross-checked with own fix-point, extractor and model",
    "design_ref": "DESIGN.md §4 C14",
    "text": "A product analysis (min size, constant folding with a modify hook, min depth) is attached to generated histories; after every call each live class's datum is recomputed from its e-nodes "
            "and compared, min-size is compared with an own least fix-point and the extractor, constants with the model value, merge conflicts are recorded by the analysis itself. Held on the histories explored.",
    "note": "Trusted: own fix-point and the F_7 model; only monotone (min / agreeing-constant) analyses are exercised.",
}
META["C15"] = {
    "technique": "report-vs-state monitor: stop reasons, return values and counters are compared with an independent fingerprint and a sentinel rule counting applications",
    "design_ref": "DESIGN.md §4 C15",
    "text": "Every claim a run makes (nothing changed, saturated, limit exceeded, hook failed, node count) is checked against the final state: an independent fingerprint before/after, one more "
            "application after saturation, re-matching of all rules, a sentinel rewrite counting applications, and hooks with known failures. Held on the runs explored.",
    "note": "Trusted: the fingerprint covers node count, live classes, slots, symmetries (by enumeration through eq) and the equality matrix of tracked handles.",
}

META["C20"] = {
    "technique": "replay-and-compare monitor: transcripts of concurrent thread replays (with noise threads) and of separate processes, with a schedule log of observed interleavings",
    "design_ref": "DESIGN.md §4 C20",
    "text": "Each history is replayed in fresh threads concurrently with unrelated e-graph work that interns unrelated symbols, and in separate processes (different ASLR layout and interner hash seeds); "
            "complete transcripts including dump output must be identical. The evidence reports how many thread switches and distinct schedule prefixes were actually observed. Held on the replays explored.",
    "note": "Trusted: transcript rendering; the OS scheduler decides interleavings (measured, not assumed).",
}

META["C07"] = {
    "technique": "independent term-level proof checker run over every explanation produced on generated histories (explanations build)",
    "design_ref": "DESIGN.md §3.6, §4 C07",
    "text": "Every proof returned by explain_equivalence for equal pairs of generated histories (3-cycles, redundancy, congruence under binders, rule applications) is re-checked node by node by "
            "a checker that works on terms rendered from the proof's equations, never on the crate's own check routines; explain must not panic and the conclusion must be the query. Held on the proofs explored.",
    "note": "Trusted: the checker in harness/src/props/c07.rs (rule formulations granted by the statement: per-side injective renamings); the checks,explanations build is not exercised (its assert_match_equation is stricter than the statement).",
}
