"""Manifest texts per property."""
META = {}
NOT_APPLICABLE = {}

META["C19"] = {
    "technique": "reference-model monitor (BTreeMap) over exhaustive small and random long operation sequences",
    "design_ref": "DESIGN.md §4 C19",
    "text": "Every public SlotMap observable is compared with a BTreeMap reference after every step of every insert/remove sequence "
            "up to length 4 (quick) / 5 (thorough, exhaustive) over four slots, for every ordered pair of the 625 maps (binary "
            "operations, Eq/Hash/Ord independence of construction order) and for random long sequences beyond the inline capacity; "
            "held on what was enumerated, not a proof for larger maps.",
    "note": "Trusted: std BTreeMap and DefaultHasher; the four-slot universe mixes numeric, fresh and named slots; larger maps only sampled.",
}
