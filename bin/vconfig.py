"""Per-property lanes, observation floors and evidence rules for bin/vcheck."""

PROPS = {}

PROPS["C19"] = {
    "rule": "cases: (A) every insert/remove sequence up to length maxlen over four slots of mixed kinds, compared with a BTreeMap "
            "after every step; (B) every ordered pair of the 625 maps over four slots for the binary operations; (C) triples of "
            "partial injections for associativity; (D) random sequences over 12-40 slots. Non-trivial = sequence containing an "
            "overwrite, a removal of a present key or an out-of-order insertion / pair or triple of non-empty maps / random "
            "sequence that grew beyond the inline capacity of 10. Distinct by construction for the enumerated parts (disjoint "
            "shards of one enumeration), by hash of the operation log for random sequences.",
    "exhaustive": {"quick": False, "thorough": True},
    "assumptions": ["std BTreeMap is a correct finite map", "std DefaultHasher::new() is deterministic"],
    "quick": [
        {"variant": "default", "cases": 3000, "params": {"maxlen": 4, "mode": "all"}, "timeout": 300},
    ],
    "thorough": [
        {"variant": "default", "cases": 400000, "params": {"maxlen": 5, "mode": "all", "assoc_full": 1}, "timeout": 3000},
        {"variant": "checks", "cases": 100000, "params": {"maxlen": 4, "mode": "all"}, "timeout": 3000},
    ],
    "floors": {"any": {"sequences": 1000, "pairs": 390625, "triples": 1000, "random_sequences": 100, "spilled_to_heap": 10}},
}

_CONG_RULE = ("cases: generated histories (2-7 terms over LSym with multi-slot leaves f/g/h/k/q, binders lam/sum/let/bb, 1-6 unions; families: "
              "permuted copies, redundancy-making unions, self-referential unions, duplicates, slot variants; shadowing binders in a third of the cases). "
              "After every operation every ordered pair of inserted terms (and at the end all their subterms) is queried under every relative "
              "naming and compared with a brute-force ground congruence closure over a finite name pool (|P| >= 3m, m = max over subterms of free names + own binders). ")

PROPS["C01"] = {
    "rule": _CONG_RULE + "Non-trivial = distinct history (hash of its text) in which >=1 union changed the e-graph and >=1 queried pair with the same "
            "root operator is unequal in the oracle (there was something to get wrong).",
    "assumptions": ["the ground closure on a pool of size >= 3m coincides with the true congruence on the universe (DESIGN §3.4); disagreements are re-decided at |P|+2 before being reported"],
    "quick": [
        {"variant": "default", "cases": 6000, "params": {"profile": "mix"}, "timeout": 600},
        {"variant": "explanations", "cases": 1500, "params": {"profile": "mix"}, "timeout": 600},
    ],
    "thorough": [
        {"variant": "default", "cases": 400000, "params": {"profile": "mix"}, "timeout": 3000},
        {"variant": "default", "cases": 6000, "params": {"profile": "m4"}, "timeout": 3000},
        {"variant": "checks", "cases": 100000, "params": {"profile": "mix"}, "timeout": 3000},
        {"variant": "explanations", "cases": 60000, "params": {"profile": "mix"}, "timeout": 3000},
    ],
    "floors": {"any": {"queries": 100000, "queries_equal": 10000, "redundancy_events": 10, "symmetry_events": 10, "histories_with_effective_union": 500}},
}
PROPS["C02"] = {
    "rule": _CONG_RULE + "Non-trivial = distinct history in which >=1 union changed the e-graph and >=1 oracle-equal pair is not a reflexive query "
            "(a consequence had to be found).",
    "assumptions": ["equalities derived by the ground closure are implied at every pool size, so an 'oracle equal, e-graph unequal' verdict cannot be a false alarm"],
    "quick": [
        {"variant": "default", "cases": 6000, "params": {"profile": "mix"}, "timeout": 600},
        {"variant": "explanations", "cases": 1500, "params": {"profile": "mix"}, "timeout": 600},
    ],
    "thorough": [
        {"variant": "default", "cases": 400000, "params": {"profile": "mix"}, "timeout": 3000},
        {"variant": "default", "cases": 6000, "params": {"profile": "m4"}, "timeout": 3000},
        {"variant": "checks", "cases": 100000, "params": {"profile": "mix"}, "timeout": 3000},
        {"variant": "explanations", "cases": 60000, "params": {"profile": "mix"}, "timeout": 3000},
    ],
    "floors": {"any": {"queries": 100000, "queries_equal": 10000, "redundancy_events": 10, "symmetry_events": 10, "histories_with_effective_union": 500}},
}
PROPS["C08"] = {
    "rule": "cases: (mixed) online-generated histories of 8-30 public calls over LSym (add_expr/add_syn_expr of generated terms incl. permuted copies, "
            "add of hand-built nodes over earlier handles with random bijective slot maps, unions incl. re-invoked handles, rewrite iterations with a random "
            "rule subset incl. b[x:=t] rules, extraction, e-matching); (hist) declarative add/union histories, minimised on failure. After every call: "
            "EGraph::check(), every e-node looks up to its class as the identity invocation, no shape in two classes, e-nodes cover class slots, "
            "find idempotent, alive ids listed, work lists drained (hook). Non-trivial = distinct history (hash of its log) with >=1 redundancy or symmetry event.",
    "assumptions": ["the structural invariants are those listed in the property statement; EGraph::check is the crate's own checker"],
    "quick": [
        {"variant": "default", "cases": 3000, "params": {"mode": "mixed"}, "timeout": 600},
        {"variant": "default", "cases": 8000, "params": {"mode": "hist"}, "timeout": 600},
        {"variant": "checks", "cases": 3000, "params": {"mode": "mixed"}, "timeout": 600},
        {"variant": "checks", "cases": 8000, "params": {"mode": "hist"}, "timeout": 600},
    ],
    "thorough": [
        {"variant": "default", "cases": 200000, "params": {"mode": "mixed", "len_hi": 40}, "timeout": 3000},
        {"variant": "default", "cases": 600000, "params": {"mode": "hist"}, "timeout": 3000},
        {"variant": "checks", "cases": 200000, "params": {"mode": "mixed", "len_hi": 40}, "timeout": 3000},
        {"variant": "checks", "cases": 600000, "params": {"mode": "hist"}, "timeout": 3000},
    ],
    "floors": {"any": {"operations": 20000, "invariant_checks": 500000, "redundancy_events": 50, "symmetry_events": 50}},
}
