"""Per-property lanes, observation floors and evidence rules for bin/vcheck."""

PROPS = {}

PROPS["C19"] = {
    "rule": "cases: (A) every insert/remove sequence up to length maxlen over four slots of mixed kinds, compared with a BTreeMap "
            "after every step; (B) every ordered pair of the 625 maps over four slots for the binary operations; (C) triples of "
            "partial injections for associativity; (D) random sequences over 12-40 slots. Non-trivial = sequence containing an "
            "overwrite, a removal of a present key or an out-of-order insertion / pair or triple of non-empty maps / random "
            "sequence that grew beyond the inline capacity of 10. Distinct by construction for the enumerated parts (disjoint "
            "shards of one enumeration), by hash of the operation log for random sequences.",
    "exhaustive": {"quick": False, "thorough": True},
    "assumptions": ["std BTreeMap is a correct finite map", "std DefaultHasher::new() is deterministic"],
    "quick": [
        {"variant": "default", "cases": 9000, "params": {"maxlen": 4, "mode": "all"}, "timeout": 300},
    ],
    "thorough": [
        {"variant": "default", "cases": 400000, "params": {"maxlen": 5, "mode": "all", "assoc_full": 1}, "timeout": 3000},
        {"variant": "checks", "cases": 100000, "params": {"maxlen": 4, "mode": "all"}, "timeout": 3000},
    ],
    "floors": {"any": {"sequences": 1000, "pairs": 390625, "triples": 1000, "random_sequences": 100, "spilled_to_heap": 10}},
}

_CONG_RULE = ("cases: generated histories (2-7 terms over LSym with multi-slot leaves f/g/h/k/q, binders lam/sum/let/bb, 1-6 unions; families: "
              "permuted copies, redundancy-making unions, self-referential unions, duplicates, slot variants; shadowing binders in a third of the cases). "
              "After every operation every ordered pair of inserted terms (and at the end all their subterms) is queried under every relative "
              "naming and compared with a brute-force ground congruence closure over a finite name pool (|P| >= 3m, m = max over subterms of free names + own binders). ")

PROPS["C01"] = {
    "rule": _CONG_RULE + "Non-trivial = distinct history (hash of its text) in which >=1 union changed the e-graph and >=1 queried pair with the same "
            "root operator is unequal in the oracle (there was something to get wrong).",
    "assumptions": ["the ground closure on a pool of size >= 3m coincides with the true congruence on the universe (DESIGN §3.4); disagreements are re-decided at |P|+2 before being reported"],
    "quick": [
        {"variant": "default", "cases": 12000, "params": {"profile": "mix"}, "timeout": 600},
        {"variant": "default", "cases": 3000, "params": {"profile": "m4"}, "timeout": 600},
        {"variant": "default", "cases": 3000, "params": {"profile": "symred"}, "timeout": 600},
        {"variant": "explanations", "cases": 3000, "params": {"profile": "mix"}, "timeout": 600},
    ],
    "thorough": [
        {"variant": "default", "cases": 400000, "params": {"profile": "mix"}, "timeout": 3000},
        {"variant": "default", "cases": 60000, "params": {"profile": "m4"}, "timeout": 3000},
        {"variant": "default", "cases": 40000, "params": {"profile": "symred"}, "timeout": 3000},
        {"variant": "checks", "cases": 100000, "params": {"profile": "mix"}, "timeout": 3000},
        {"variant": "explanations", "cases": 60000, "params": {"profile": "mix"}, "timeout": 3000},
    ],
    "floors": {"any": {"queries": 100000, "queries_equal": 10000, "redundancy_events": 10, "symmetry_events": 10, "histories_with_effective_union": 500}},
}
PROPS["C02"] = {
    "rule": _CONG_RULE + "Non-trivial = distinct history in which >=1 union changed the e-graph and >=1 oracle-equal pair is not a reflexive query "
            "(a consequence had to be found).",
    "assumptions": ["equalities derived by the ground closure are implied at every pool size, so an 'oracle equal, e-graph unequal' verdict cannot be a false alarm"],
    "quick": [
        {"variant": "default", "cases": 12000, "params": {"profile": "mix"}, "timeout": 600},
        {"variant": "default", "cases": 3000, "params": {"profile": "m4"}, "timeout": 600},
        {"variant": "default", "cases": 3000, "params": {"profile": "symred"}, "timeout": 600},
        {"variant": "explanations", "cases": 3000, "params": {"profile": "mix"}, "timeout": 600},
    ],
    "thorough": [
        {"variant": "default", "cases": 400000, "params": {"profile": "mix"}, "timeout": 3000},
        {"variant": "default", "cases": 60000, "params": {"profile": "m4"}, "timeout": 3000},
        {"variant": "default", "cases": 40000, "params": {"profile": "symred"}, "timeout": 3000},
        {"variant": "checks", "cases": 100000, "params": {"profile": "mix"}, "timeout": 3000},
        {"variant": "explanations", "cases": 60000, "params": {"profile": "mix"}, "timeout": 3000},
    ],
    "floors": {"any": {"queries": 100000, "queries_equal": 10000, "redundancy_events": 10, "symmetry_events": 10, "histories_with_effective_union": 500}},
}
for _p in ("C01", "C02"):
    PROPS[_p]["floors"]["any"]["family_self_reference_with_symmetry"] = 300
PROPS["C08"] = {
    "rule": "cases: (mixed) online-generated histories of 8-30 public calls over LSym (add_expr/add_syn_expr of generated terms incl. permuted copies, "
            "add of hand-built nodes over earlier handles with random bijective slot maps, unions incl. re-invoked handles, rewrite iterations with a random "
            "rule subset incl. b[x:=t] rules, extraction, e-matching); (hist) declarative add/union histories, minimised on failure. After every call: "
            "EGraph::check(), every e-node looks up to its class as the identity invocation, no shape in two classes, e-nodes cover class slots, "
            "find idempotent, alive ids listed, work lists drained (hook). Non-trivial = distinct history (hash of its log) with >=1 redundancy or symmetry event.",
    "assumptions": ["the structural invariants are those listed in the property statement; EGraph::check is the crate's own checker"],
    "quick": [
        {"variant": "default", "cases": 6000, "params": {"mode": "mixed"}, "timeout": 600},
        {"variant": "default", "cases": 16000, "params": {"mode": "hist"}, "timeout": 600},
        {"variant": "checks", "cases": 6000, "params": {"mode": "mixed"}, "timeout": 600},
        {"variant": "checks", "cases": 16000, "params": {"mode": "hist"}, "timeout": 600},
    ],
    "thorough": [
        {"variant": "default", "cases": 200000, "params": {"mode": "mixed", "len_hi": 40}, "timeout": 3000},
        {"variant": "default", "cases": 600000, "params": {"mode": "hist"}, "timeout": 3000},
        {"variant": "checks", "cases": 200000, "params": {"mode": "mixed", "len_hi": 40}, "timeout": 3000},
        {"variant": "checks", "cases": 600000, "params": {"mode": "hist"}, "timeout": 3000},
    ],
    "floors": {"any": {"operations": 20000, "invariant_checks": 500000, "redundancy_events": 50, "symmetry_events": 50}},
}

PROPS["C10"] = {
    "rule": "cases: (exhaustive) every set of 1-3 permutations on 1..4 slots (2324 sets on four slots), each asserted as unions of a multi-slot leaf with its "
            "permuted copies (both assertion orders) and fed to the group structure directly through the hook (every incremental split between "
            "construction and add_set); all n! membership queries per set, all_perms set/duplicates, count, orbits, add_set growth flag, against brute-force closure. "
            "(random) 1-3 generators on 5 and 6 slots with all 120/720 queries. (symred) a leaf with a slot made redundant first and symmetries moving "
            "redundant slots, judged by the ground closure oracle in both directions. Non-trivial = generator set generating a non-trivial group "
            "(distinct by enumeration / by hash of the sorted generator list) or symred history with an effective union and a derived equality.",
    "exhaustive": {"quick": True, "thorough": True},
    "assumptions": ["brute-force closure by BFS over explicit permutation tables is correct", "exhaustive: true refers to the generator sets on <= 4 slots; 5/6 slots and the redundancy variant are sampled"],
    "quick": [
        {"variant": "default", "cases": 900, "params": {"exh_n": 4}, "timeout": 600},
        {"variant": "default", "cases": 4500, "params": {"profile": "symred"}, "worker_prop": "C10red", "timeout": 600},
    ],
    "thorough": [
        {"variant": "default", "cases": 30000, "params": {"exh_n": 4}, "timeout": 3000},
        {"variant": "checks", "cases": 3000, "params": {"exh_n": 4}, "timeout": 3000},
        {"variant": "explanations", "cases": 1000, "params": {"exh_n": 4}, "timeout": 3000},
        {"variant": "default", "cases": 40000, "params": {"profile": "symred"}, "worker_prop": "C10red", "timeout": 3000},
    ],
    "floors": {"any": {"generator_sets": 2600, "egraph_membership_queries": 100000, "direct_observations": 100000, "sets_with_non_involution": 1000, "random_sets_5": 50, "random_sets_6": 50}},
}

PROPS["C09"] = {
    "rule": "cases: an e-graph reached by a generated add/union history (as C01) plus wrapper terms; up to 14 probes per e-graph: literal re-insertion, "
            "alpha-variant, injectively renamed copy, copy with a subterm replaced by a term united with it earlier, closed subterms, random (possibly absent) terms. "
            "Per probe: lookup_rec_expr must not change the fingerprint (progress, node count, ids), lookup.is_some() == (add_expr allocated no class), "
            "lookup == add (eq), known terms allocate nothing and equal the original renamed, slots = oracle support and are equivariant, re-add idempotent. "
            "Non-trivial = distinct history with >=1 non-literal present probe.",
    "assumptions": ["class allocation is observed through progress().number_of_classes"],
    "quick": [
        {"variant": "default", "cases": 16000, "timeout": 600},
        {"variant": "explanations", "cases": 3200, "timeout": 600},
    ],
    "thorough": [
        {"variant": "default", "cases": 400000, "timeout": 3000},
        {"variant": "checks", "cases": 60000, "timeout": 3000},
        {"variant": "explanations", "cases": 40000, "timeout": 3000},
    ],
    "floors": {"any": {"lookups": 20000, "present_probes": 10000, "probe_equal_subterm": 500, "probe_renamed": 1000, "probe_created_class": 500, "slot_sets_vs_oracle": 5000}},
}

PROPS["C16"] = {
    "rule": "cases: e-node values of four derived languages (LSym, LArith, LPay, LNest: plain slots, Bind<AppliedId>, Bind<Bind<..>>, Bind<Slot>, binder after/before/between free "
            "positions, payload types u32/i64/bool/char/Symbol) built from syntax elements; (exhaustive, shard 0) every slot assignment from a three-name alphabet for every "
            "variant, (random) alphabets of 2-6 names with repeats and shadowing. Per node: to_syntax/from_syntax round trip, occurrence lists and slots() against an independent "
            "scoping model, weak_shape invariance under bijective and alpha renaming, shape equality <=> model key equality (global tables), shape idempotence, bijection domain/range, "
            "apply_slotmap(bij) restores the node. Non-trivial = distinct canonical shapes observed (each shape is one equivalence class of nodes).",
    "exhaustive": {"quick": False, "thorough": False},
    "assumptions": ["the independent scoping model in harness/src/props/c16.rs (innermost binder wins, a binder scopes over its own field only)"],
    "quick": [{"variant": "default", "cases": 48000, "timeout": 600}],
    "thorough": [{"variant": "default", "cases": 1500000, "timeout": 3000}, {"variant": "checks", "cases": 200000, "timeout": 3000}],
    "floors": {"any": {"nodes_checked": 100000, "nodes_with_shadowing": 5000, "nodes_with_repeated_slot": 20000, "nodes_exhaustive": 5000, "distinct_shapes": 5000}},
}
PROPS["C17"] = {
    "rule": "cases: one interleaving of 200 events in a fresh thread: Slot::fresh, Slot::numeric (incl. the top of the range), Slot::named over hostile names (f<n> below/at/above the "
            "fresh counter, leading zeros, '+5', numerals beyond 2^30, unicode), RecExpr::parse of texts with such names, and e-graph insertions/unions that draw fresh slots "
            "internally. A recorder holds every slot and name seen: fresh() must be new, must not print as a used or numeric name, name->slot and slot->name must be functions, "
            "print/parse must round-trip, internally invented (non-numeric) slots must be new to the user. The hygiene lane replays C11-style histories with user slots named f0..f9 "
            "and $0..$9 against a neutral naming. Non-trivial = distinct interleaving (hash of its log) containing all event kinds.",
    "assumptions": ["numeric names inside stored e-nodes are canonical shape names of bound slots; their harmlessness is judged by the behavioural hygiene lane"],
    "quick": [{"variant": "default", "cases": 24000, "params": {"len": 200}, "timeout": 600}],
    "thorough": [{"variant": "default", "cases": 300000, "params": {"len": 300}, "timeout": 3000}],
    "floors": {"any": {"events": 100000, "fresh_calls": 10000, "names_recorded": 50000}},
}
PROPS["C18"] = {
    "rule": "cases: per case one language (LSym, LArith, LPay, LNest), 6 generated terms, 6 generated patterns (pattern variables, nested b[x := t]), 3 multi-patterns, each checked for "
            "parse(print(x)) == x, print == harness printer, term/pattern readings agree; then 60 texts obtained from the corpus by truncation, token deletion/duplication/swap, "
            "bracket flips, splicing and random characters are given to RecExpr/Pattern/MultiPattern::parse: no panic, Ok values have as many children as their operator takes and "
            "are stable under their own print/parse. Payloads obey the statement's side condition. Non-trivial = distinct corpus (hash).",
    "assumptions": ["payloads containing '==' or ',' are excluded from multi-patterns (they do not print unambiguously there)"],
    "quick": [{"variant": "default", "cases": 80000, "timeout": 600}],
    "thorough": [{"variant": "default", "cases": 800000, "timeout": 3000}, {"variant": "checks", "cases": 100000, "timeout": 3000}],
    "floors": {"any": {"term_roundtrips": 10000, "pattern_roundtrips": 10000, "subst_patterns": 1000, "multipattern_roundtrips": 5000, "arbitrary_texts": 100000, "arbitrary_accepted": 5000}},
}

_META_HIST = ("generated add/union histories over LSym (2-6 terms, 1-5 unions, families as in C01 incl. symmetric-user and self-reference)")
PROPS["C11"] = {
    "rule": "cases: " + _META_HIST + ", half of them with 1-2 rewrite iterations of a random rule subset; run once with neutral slot names in a fresh thread and once "
            "with a renaming drawn from: numeric ascending/descending, fresh-like f<n> (low and above the counter), textual names interned in shuffled order, a mixed alphabet, permuted names; "
            "bound names renamed too. Compared: all equality answers over all relative namings, live classes, multiset of (slot count, symmetry count) per live class, per-term slot count / "
            "symmetry count / slot names (returned invocations are the originals renamed), AstSize cost of the term extracted per handle, node count. A panic that occurs only under the "
            "renaming is a violation. Non-trivial = distinct (naming, history) pair.",
    "assumptions": ["observable answers are compared; internal ids and fresh-name numbering are not"],
    "quick": [{"variant": "default", "cases": 15000, "timeout": 600}],
    "thorough": [{"variant": "default", "cases": 1200000, "timeout": 3000}, {"variant": "explanations", "cases": 80000, "timeout": 3000}],
    "floors": {"any": {"histories_compared": 1500, "histories_with_rewriting": 300, "naming_numeric_desc": 50, "naming_fresh_like": 50, "naming_textual_rev": 50}},
}
PROPS["C12"] = {
    "rule": "cases: " + _META_HIST + "; the same operations are executed in the generated order and in 4 (quick) / 8 (thorough) random permutations with random orientation flips of every "
            "union, plus the fully reversed order and the all-flipped orientation. Compared: equality answers over all inserted terms and relative namings, live classes, per-term slot count, "
            "symmetry count and slot names. Non-trivial = distinct history with >= 2 unions.",
    "assumptions": ["a union that refers to a term not inserted yet inserts it first (so every order is executable)"],
    "quick": [{"variant": "default", "cases": 15000, "params": {"orders": 4}, "timeout": 600}],
    "thorough": [{"variant": "default", "cases": 1000000, "params": {"orders": 8}, "timeout": 3000}, {"variant": "checks", "cases": 120000, "params": {"orders": 4}, "timeout": 3000}],
    "floors": {"any": {"histories_compared": 1500, "orders_compared": 8000}},
}
PROPS["C13"] = {
    "rule": "cases: one long history of 30-120 (quick) / 40-300 (thorough) public calls (insertions incl. permuted copies, unions of arbitrary earlier handles, rewrite iterations); a recorder keeps "
            "every returned invocation, its slot set, and every pair observed equal (all asserted pairs + a sample). After every call: progress moves only in its documented lexicographic "
            "direction, every old handle canonicalises to a live class, its slot set only shrinks, a sliding sample of recorded equalities still holds (all of them at the end), and every "
            "10 calls a term is extracted from every old handle and looked up again. Non-trivial = distinct history with >= 3 recorded equal pairs.",
    "assumptions": ["four-slot leaves are left out of the long histories with rewriting (the crate's shape computation is exponential in the children's group sizes and only yields watchdog timeouts); a second lane runs short union-only histories over few operators including the four-slot leaf"],
    "quick": [{"variant": "default", "cases": 1200, "params": {"case_timeout": 30}, "timeout": 900},
              {"variant": "default", "cases": 4000, "params": {"with_q": 1, "len_lo": 8, "len_hi": 30, "case_timeout": 30}, "timeout": 900}],
    "thorough": [{"variant": "default", "cases": 12000, "params": {"len_lo": 40, "len_hi": 300, "case_timeout": 60}, "timeout": 3400},
                 {"variant": "default", "cases": 400000, "params": {"with_q": 1, "len_lo": 8, "len_hi": 40, "case_timeout": 60}, "timeout": 3400}, {"variant": "checks", "cases": 1500, "params": {"case_timeout": 120}, "timeout": 3400}],
    "floors": {"any": {"histories_completed": 800, "equal_pairs_recorded": 100000, "progress_checks": 50000, "extractions_from_old_handles": 50000}},
}
PROPS["C17"]["quick"].append({"variant": "default", "cases": 1200, "params": {"lazy": 1}, "worker_prop": "C11", "timeout": 600})
PROPS["C17"]["thorough"].append({"variant": "default", "cases": 100000, "params": {"lazy": 1}, "worker_prop": "C11", "timeout": 3000})
PROPS["C17"]["floors"]["any"].update({"naming_lazy_fresh_like": 200, "naming_lazy_numeric": 200})

PROPS["C06"] = {
    "rule": "cases: an e-graph reached by a generated add/union history over LSym (self-referential unions give cyclic classes, redundancy unions give best nodes with redundant slots, "
            "permuted copies give symmetric classes), half of them followed by 1-2 rewrite iterations; queries = every live class under the identity and under a random renaming of its "
            "arguments plus all (possibly merged) old handles; three cost functions (AstSize, depth-weighted 1+2*children, per-operator weights). Per query: get_best_cost == own Bellman-Ford "
            "minimum over eg.enodes, cost_rec(result) == best cost, lookup_rec_expr(result) equals the query, free slots of the result are arguments of the query or never-seen slots, no panic, "
            "extraction succeeds iff the own fix-point finds a finite term. Non-trivial = distinct history whose e-graph has a cyclic class or a class with e-nodes of different cost.",
    "assumptions": ["the own least fix-point uses eg.enodes and the same cost function; 'new slot' = its printed name occurs nowhere in the e-graph or the user alphabet before extraction"],
    "quick": [{"variant": "default", "cases": 4500, "timeout": 600}, {"variant": "checks", "cases": 1500, "timeout": 600}],
    "thorough": [{"variant": "default", "cases": 1600000, "timeout": 3000}, {"variant": "checks", "cases": 240000, "timeout": 3000}, {"variant": "explanations", "cases": 80000, "timeout": 3000}],
    "floors": {"any": {"extractions": 30000, "egraphs_with_cyclic_class": 200, "enodes_with_redundant_slots": 500, "queries_with_cost_choice": 5000, "cost_race_egraphs": 500}},
}
PROPS["C05"] = {
    "rule": "cases: an e-graph reached by a generated history (half with a rewrite iteration), 6 single patterns (abstractions of inserted terms with shared variables for equal subterms, and blind random "
            "patterns with binders and repeated slots) and 3 multi-patterns (flattened inserted terms and random equation lists). Every returned substitution (first 300/200 per pattern) must bind all "
            "variables, the pattern instantiated bottom-up with eg.lookup only must be represented, each multi-pattern equation must hold between the bound classes, and a fingerprint (progress, "
            "nodes, ids, class slots, equality matrix of all handles) must be unchanged by matching. Non-trivial = distinct history with >=1 validated match of a pattern with >=2 nodes / >=2 equations.",
    "assumptions": ["instantiation uses only EGraph::lookup, so 'represented without inserting' is decided by the crate's own lookup, cross-checked by C09"],
    "quick": [{"variant": "default", "cases": 160000, "timeout": 600}],
    "thorough": [{"variant": "default", "cases": 2400000, "timeout": 3000}, {"variant": "checks", "cases": 240000, "timeout": 3000}],
    "floors": {"any": {"matches_validated": 10000, "multimatches_validated": 2000, "patterns_with_matches": 3000, "multipatterns_with_matches": 1000, "multipatterns_with_one_name_for_two_slots_of_a_node": 2000}},
}
PROPS["C04"] = {
    "rule": "cases: a random left pattern over LSym (repeated variables, free and bound slots, variables under binders) and a right pattern built from its top-level variables, free slots and verbatim "
            "binder blocks; a planted instance (variables -> small terms that may mention the bound slots in scope, slots -> distinct names), optional distractors, optionally a symmetric child "
            "class (f(a,b)=f(b,a)) and optionally a balanced prior union (the instance is inserted with a leaf u replaced by u' and u = u' is asserted, so the instance is present only up to "
            "equality). Scope guards on the real e-graph: no class with a redundant slot, instance represented beforehand, binders bound once. After one apply_rewrites the right-hand instance "
            "must be represented and equal to the planted one. Non-trivial = distinct planting with a repeated variable, a symmetric class or presence only through a union.",
    "assumptions": ["the planted substitution is known by construction; out-of-scope plantings are counted as skipped, not judged"],
    "quick": [{"variant": "default", "cases": 200000, "timeout": 600}],
    "thorough": [{"variant": "default", "cases": 4800000, "timeout": 3000}, {"variant": "checks", "cases": 480000, "timeout": 3000}],
    "floors": {"any": {"plantings_judged": 3000, "plantings_with_repeated_variable": 200, "plantings_present_only_through_union": 800, "plantings_with_symmetric_class": 800, "plantings_with_several_symmetric_children": 1000, "plantings_with_eight_or_more_arrangements": 300}},
}

PROPS["C03"] = {
    "rule": "cases: a random start term over LArith (num/var/add/mul/sum-binder/let-binder, free slots p and q, depth 2-4, a third with shadowing binders), a random subset of 2-8 rules from the "
            "pool valid in the chosen model (M1 = F_7 with sums over {0,1,2}; M2 = F_3 with whole-field sums; conditional rules (side conditions built either by the harness or from the crate's slot_free_in / not / and / or), rules moving terms under binders, re-binding, let push-down, "
            "b[x := t] right sides), 1-5 iterations by apply_rewrites or Runner, SynExprSubst or ExtractionSubst. After every iteration every e-node of every class (enodes and enodes_applied) is "
            "evaluated against the class value (own least-rank representative) under all environments when p^slots <= 343, else 10 random ones; redundant slots get independent random values; the "
            "start term's value must equal its class's. Non-trivial = distinct (term, rule set, model) run in which a rule mentioning a slot was in the set and the e-graph grew.",
    "assumptions": ["the rule pools contain only rules valid in their model (the unconditional sum-mul-out rule is kept outside as the sensitivity probe: vworker C03 bad=1 must report violations)",
                    "a fault invisible in both finite models for all sampled environments is not seen"],
    "quick": [{"variant": "default", "cases": 3000, "timeout": 900}, {"variant": "explanations", "cases": 720, "timeout": 900}],
    "thorough": [{"variant": "default", "cases": 40000, "params": {"case_timeout": 120}, "timeout": 3400}, {"variant": "checks", "cases": 3000, "params": {"case_timeout": 120}, "timeout": 3400}, {"variant": "explanations", "cases": 3000, "params": {"case_timeout": 120}, "timeout": 3400}],
    "floors": {"any": {"runs": 300, "enode_evaluations": 200000, "root_evaluations": 10000, "runs_with_subst_rule": 30, "runs_with_conditional_rule": 100, "conditions_built_from_crate_combinators": 50, "rules_built_through_RewriteT_and_union_instantiations": 200, "runs_extraction_subst": 100}},
}
PROPS["C14"] = {
    "rule": "cases: histories of 3-10 public calls over LArith with the product analysis (min size, constant value in F_7 with a modify hook that inserts the constant and unions, min depth): "
            "insertions, unions with model-equal variants (a parent over the bigger variant is inserted first so the union lowers a child's datum afterwards), rewrite iterations with model-valid rules. "
            "After every call, for every live class: datum == join of make over eg.enodes with current child data; merged handles share one datum; a union's result is below both sides; data never "
            "move up; min-size == own Bellman-Ford minimum == Extractor<AstSize> best cost; constant datum == model value under random environments; a class with a ground e-node has a constant; "
            "no merge conflict was recorded; work lists drained. Non-trivial = distinct history in which modify ran and a union or rewrite happened.",
    "assumptions": ["the analyses are semilattice joins (min / agreeing constants); make/merge/modify calls are counted by the analysis itself"],
    "quick": [{"variant": "default", "cases": 24000, "timeout": 900}],
    "thorough": [{"variant": "default", "cases": 120000, "params": {"case_timeout": 120}, "timeout": 3400}, {"variant": "checks", "cases": 8000, "params": {"case_timeout": 120}, "timeout": 3400}],
    "floors": {"any": {"class_checks": 20000, "const_vs_model": 20000, "modify_calls": 3000, "runs_where_union_lowered_a_datum": 100}},
}
PROPS["C15"] = {
    "rule": "cases: a start e-graph (LSym history incl. a three-slot leaf with one known symmetry under binders, or an LArith term), a random rule subset, 0-2 monitored apply_rewrites calls, then one "
            "run by Runner or run_eqsat with iteration limit 0-6, node limit 1-60 or 400, a hook failing at a chosen iteration (25%), time limit one hour (or 0 in 10% of the runs). Rule "
            "applications are counted by a sentinel rewrite. Judged: apply_rewrites == false => fingerprint (node count, live ids, (slots, symmetries) per class, equality matrix and symmetry "
            "count of tracked handles) unchanged; Saturated => one more application changes nothing and every match of every unconditional syntactic rule has equal sides; IterationLimit => "
            ">= limit+1 applications; always <= limit+2 applications; NodeLimit => nodes > limit; Other(e) <=> the hook returned e; TimeLimit only with limit 0; report.egraph_nodes == node count. "
            "Non-trivial = distinct (setup, limits) run.",
    "assumptions": ["wall-clock time is never a verdict: the time limit is out of reach except in the limit-0 lane, where TimeLimit is always true"],
    "quick": [{"variant": "default", "cases": 60000, "timeout": 900}],
    "thorough": [{"variant": "default", "cases": 250000, "params": {"case_timeout": 120}, "timeout": 3400}, {"variant": "checks", "cases": 20000, "params": {"case_timeout": 120}, "timeout": 3400}],
    "floors": {"any": {"runs": 1500, "stop_saturated": 500, "stop_iteration_limit": 40, "stop_node_limit": 15, "stop_other": 60, "apply_rewrites_returned_false": 300, "saturated_matches_checked": 500}},
}

PROPS["C20"] = {
    "rule": "cases: a history of 6-16 operations over LPay (Symbol, u32, i64 and bool payloads; insertions, unions, rewrite iterations incl. a b[x:=t] rule, e-matching, extraction, dump), over LSym, or over LArith with a "
            "constant-folding analysis whose modify hook adds and unions (noise threads run such hooks too) is replayed "
            "(a) once alone as baseline, (b) in 4 fresh threads released by a barrier together with 4 noise threads that build unrelated e-graphs and intern unrelated symbols, with yields "
            "injected at operation boundaries, (c) in 3 separate processes whose stdout (including EGraph::dump output) is compared line by line. Transcript = every returned invocation and "
            "slot set, find results, ids(), node counts, progress, match lists in returned order, extracted terms and costs, final class listings. The monitor logs (thread, operation) at every "
            "boundary; distinct_nontrivial counts distinct histories plus distinct observed schedule prefixes (first 12 boundary crossings of the replay threads).",
    "assumptions": ["a library without locks can only be interleaved at operation boundaries; address/seed dependence needing a particular heap layout is only sampled by the 3 processes"],
    "quick": [{"variant": "default", "cases": 480, "params": {"processes": 3}, "timeout": 900}, {"variant": "default", "cases": 1800, "params": {"processes": 0}, "timeout": 900}],
    "thorough": [{"variant": "default", "cases": 12000, "params": {"processes": 3}, "timeout": 3400}, {"variant": "default", "cases": 60000, "params": {"processes": 0}, "timeout": 3400},
                 {"variant": "explanations", "cases": 4000, "params": {"processes": 0}, "timeout": 3400}],
    "floors": {"any": {"histories_with_analysis_hooks": 150, "thread_replays": 2000, "process_replays": 300, "dump_lines_compared": 1000, "thread_switches_observed": 5000, "noise_iterations_during_replays": 5000}},
}

PROPS["C07"] = {
    "rule": "cases (explanations build): a generated history over LSym inserted with add_syn_expr (families: permuted copies incl. 3- and 4-cycles, redundancy, self-reference, symmetric users, "
            "wrappers under binders), every union justified by a unique string, in two thirds of the cases 1-2 rewrite iterations with named rules; up to 8 pairs of inserted terms that eq reports "
            "equal are explained. Each proof DAG is walked once; every node's two sides are rendered with get_syn_expr and converted to the harness's own term model; reflexivity, symmetry, "
            "transitivity (renamings propagated through the middle term), congruence (children opened with common bound names) are validated up to renamings injective on each side of a premise; "
            "explicit leaves must be instances of the equation asserted with that justification, or syntactic instances of the named rule (computed b[x:=t] right sides exempt); the conclusion "
            "must be the query up to an injective renaming; building, explaining, to_string and check() must not panic. Non-trivial = distinct history with a proof containing a congruence step "
            "or >= 2 explicit leaves.",
    "assumptions": ["the term-level rule formulations of DESIGN §3.6; get_syn_expr is used only as a renderer of the two sides of each step"],
    "quick": [{"variant": "explanations", "cases": 16000, "timeout": 900}],
    "thorough": [{"variant": "explanations", "cases": 720000, "params": {"case_timeout": 120}, "timeout": 3400}],
    "floors": {"any": {"proofs": 3000, "proof_nodes": 15000, "steps_congruence": 300, "steps_transitivity": 3000, "leaves_explicit": 3000, "leaves_by_rule": 60}},
}


# ---- Miri lanes (thorough tier): the same workers interpreted by Miri (undefined behaviour / data races in the dependency code reached)
PROPS["C19"]["thorough"].append({"variant": "miri", "cases": 16, "params": {"mode": "random"}, "shards": 16, "timeout": 2400})
PROPS["C17"]["thorough"].append({"variant": "miri", "cases": 16, "params": {"len": 60}, "shards": 16, "timeout": 2400})
PROPS["C08"]["thorough"].append({"variant": "miri", "cases": 48, "params": {"mode": "hist"}, "shards": 16, "timeout": 2400})
PROPS["C20"]["thorough"].append({"variant": "miri", "cases": 16, "params": {"processes": 0}, "shards": 16, "timeout": 2400})

# C11 also names analysis data among the observables: the C14 world (product analysis over LArith) replayed under a renaming
PROPS["C11"]["quick"].append({"variant": "default", "cases": 3000, "params": {"renamed": 1}, "worker_prop": "C14", "timeout": 900})
PROPS["C11"]["thorough"].append({"variant": "default", "cases": 100000, "params": {"renamed": 1, "case_timeout": 120}, "worker_prop": "C14", "timeout": 3400})
PROPS["C11"]["floors"]["any"]["renamed_runs"] = 1500

PROPS["C19"]["evaluations_from"] = ["sequences", "pairs", "triples", "random_sequences"]
PROPS["C16"]["evaluations_from"] = ["nodes_checked"]
PROPS["C10"]["evaluations_from"] = ["generator_sets", "histories_completed"]

# ---- sparse-monitoring lanes: no query / invariant check between the operations (those canonicalise handles and thereby compress
# union-find paths, which can mask defects that need an untouched chain); everything is judged once after the last operation
for _p in ("C01", "C02"):
    PROPS[_p]["quick"].append({"variant": "default", "cases": 8000, "params": {"profile": "mix", "sparse": 1}, "timeout": 600})
    PROPS[_p]["thorough"].append({"variant": "default", "cases": 200000, "params": {"profile": "mix", "sparse": 1}, "timeout": 3000})
PROPS["C08"]["quick"].append({"variant": "default", "cases": 16000, "params": {"mode": "hist", "sparse": 1}, "timeout": 600})
PROPS["C08"]["thorough"].append({"variant": "default", "cases": 600000, "params": {"mode": "hist", "sparse": 1}, "timeout": 3000})
PROPS["C13"]["quick"].append({"variant": "default", "cases": 6000, "params": {"with_q": 1, "sparse": 1, "len_lo": 8, "len_hi": 30, "case_timeout": 30}, "timeout": 900})
PROPS["C13"]["quick"].append({"variant": "default", "cases": 600, "params": {"sparse": 1, "case_timeout": 30}, "timeout": 900})
PROPS["C13"]["thorough"].append({"variant": "default", "cases": 300000, "params": {"with_q": 1, "sparse": 1, "len_lo": 8, "len_hi": 40, "case_timeout": 60}, "timeout": 3400})
PROPS["C13"]["thorough"].append({"variant": "default", "cases": 8000, "params": {"sparse": 1, "len_lo": 40, "len_hi": 200, "case_timeout": 60}, "timeout": 3400})

# C08 over the other workload languages (LArith, LPay with payloads, LNest with Bind<Bind<..>> and slots around binders)
PROPS["C08"]["quick"].append({"variant": "default", "cases": 12000, "params": {"mode": "hist", "lang": "all"}, "timeout": 600})
PROPS["C08"]["quick"].append({"variant": "checks", "cases": 6000, "params": {"mode": "hist", "lang": "all"}, "timeout": 600})
PROPS["C08"]["thorough"].append({"variant": "default", "cases": 400000, "params": {"mode": "hist", "lang": "all"}, "timeout": 3000})
PROPS["C08"]["thorough"].append({"variant": "checks", "cases": 200000, "params": {"mode": "hist", "lang": "all"}, "timeout": 3000})
PROPS["C08"]["floors"]["any"].update({"histories_arith": 1000, "histories_pay": 1000, "histories_nest": 1000})

# C09 with a non-trivial analysis attached (the C14 world ends every history with lookup / re-insertion probes of all inserted terms)
PROPS["C09"]["quick"].append({"variant": "default", "cases": 4000, "worker_prop": "C14", "timeout": 900})
PROPS["C09"]["thorough"].append({"variant": "default", "cases": 100000, "params": {"case_timeout": 120}, "worker_prop": "C14", "timeout": 3400})
PROPS["C09"]["floors"]["any"]["probes_with_analysis"] = 5000
PROPS["C14"]["floors"]["any"]["probes_with_analysis"] = 2000

# C13 on declarative histories with random observation points (dense ... never), incl. the congruence-chain family
PROPS["C13"]["quick"].append({"variant": "default", "cases": 30000, "params": {"hist": 1}, "timeout": 900})
PROPS["C13"]["thorough"].append({"variant": "default", "cases": 1500000, "params": {"hist": 1}, "timeout": 3400})
PROPS["C13"]["floors"]["any"].update({"declarative_histories": 10000, "family_congruence_chain": 1000})

PROPS["C07"]["floors"]["any"]["queries_with_uninserted_term"] = 500

# C08 with a non-trivial analysis attached (the C14 world evaluates the structural invariants after every call as well)
PROPS["C08"]["quick"].append({"variant": "default", "cases": 4000, "worker_prop": "C14", "timeout": 900})
PROPS["C08"]["quick"].append({"variant": "checks", "cases": 1500, "worker_prop": "C14", "timeout": 900})
PROPS["C08"]["thorough"].append({"variant": "default", "cases": 100000, "params": {"case_timeout": 120}, "worker_prop": "C14", "timeout": 3400})
PROPS["C08"]["thorough"].append({"variant": "checks", "cases": 20000, "params": {"case_timeout": 120}, "worker_prop": "C14", "timeout": 3400})

# four-slot leaves in the renaming / order lanes (classes with >= 4 slots that are symmetric in some of them only; union-only histories)
PROPS["C11"]["quick"].append({"variant": "default", "cases": 6000, "params": {"with_q": 1, "case_timeout": 30}, "timeout": 600})
PROPS["C11"]["thorough"].append({"variant": "default", "cases": 300000, "params": {"with_q": 1, "case_timeout": 60}, "timeout": 3000})
PROPS["C12"]["quick"].append({"variant": "default", "cases": 4000, "params": {"with_q": 1, "case_timeout": 30}, "timeout": 600})
PROPS["C12"]["thorough"].append({"variant": "default", "cases": 150000, "params": {"with_q": 1, "case_timeout": 60}, "timeout": 3000})

# C14 sparse lane: handles are read for the first time after the last operation (see the sparse lanes above)
PROPS["C14"]["quick"].append({"variant": "default", "cases": 16000, "params": {"sparse": 1}, "timeout": 600})
PROPS["C14"]["thorough"].append({"variant": "default", "cases": 150000, "params": {"sparse": 1, "case_timeout": 120}, "timeout": 3000})

# C20 big-batch lane: one rule matching 10k-40k terms in one call, replayed alone and concurrently (large match lists / maps)
PROPS["C20"]["quick"].append({"variant": "default", "cases": 16, "params": {"big": 1, "case_timeout": 300}, "timeout": 900})
PROPS["C20"]["thorough"].append({"variant": "default", "cases": 160, "params": {"big": 1, "case_timeout": 600}, "timeout": 3000})

# C01/C02 with user slots named like fresh slots far above the fresh counter (terms "over all terms" include such names)
for _p in ("C01", "C02"):
    PROPS[_p]["quick"].append({"variant": "default", "cases": 5000, "params": {"profile": "mix", "naming": "fhigh"}, "timeout": 600})
    PROPS[_p]["thorough"].append({"variant": "default", "cases": 150000, "params": {"profile": "mix", "naming": "fhigh"}, "timeout": 3000})

# C03 substitution-focused lane: let-terms with plain and unit-decorated occurrences of the bound variable, rule set always with
# let-subst and the unit rules (a variable's class may die into a composite class before the substitution runs)
PROPS["C03"]["quick"].append({"variant": "default", "cases": 3000, "params": {"subst": 1}, "timeout": 900})
PROPS["C03"]["quick"].append({"variant": "explanations", "cases": 400, "params": {"subst": 1}, "timeout": 900})
PROPS["C03"]["thorough"].append({"variant": "default", "cases": 40000, "params": {"subst": 1, "case_timeout": 120}, "timeout": 3400})
PROPS["C03"]["thorough"].append({"variant": "explanations", "cases": 3000, "params": {"subst": 1, "case_timeout": 120}, "timeout": 3400})

# C20 with explanations compiled in (quick tier too): explanation texts (ProvenEq::to_string walks a pointer-keyed map) and the dump
# of syntactic e-nodes with their origin are part of the transcript, compared across threads and across processes
PROPS["C20"]["quick"].append({"variant": "explanations", "cases": 160, "params": {"processes": 3}, "timeout": 900})
PROPS["C20"]["quick"].append({"variant": "explanations", "cases": 640, "params": {"processes": 0}, "timeout": 900})
PROPS["C20"]["thorough"].append({"variant": "explanations", "cases": 2000, "params": {"processes": 3}, "timeout": 3400})
PROPS["C20"]["floors"]["any"]["explanations_rendered"] = 300

# C02 beyond the reach of the ground closure (five to eight names per term, nodes with two or three children over one class): one- and
# two-step consequences of the asserted equations, known by construction, inserted and compared (harness/src/props/wide.rs)
PROPS["C02"]["quick"].append({"variant": "default", "cases": 30000, "worker_prop": "C02wide", "timeout": 600})
PROPS["C02"]["quick"].append({"variant": "explanations", "cases": 8000, "worker_prop": "C02wide", "timeout": 600})
PROPS["C02"]["thorough"].append({"variant": "default", "cases": 800000, "worker_prop": "C02wide", "timeout": 3000})
PROPS["C02"]["thorough"].append({"variant": "checks", "cases": 100000, "worker_prop": "C02wide", "timeout": 3000})
PROPS["C02"]["floors"]["any"].update({"wide_consequences_judged": 100000, "wide_histories_with_five_or_more_names": 5000})

# C09 in the same regime: the consequence terms are represented (equal through earlier unions of subterms): lookup finds them, inserting
# them allocates nothing, lookup agrees with insertion
PROPS["C09"]["quick"].append({"variant": "default", "cases": 20000, "worker_prop": "C09wide", "timeout": 600})
PROPS["C09"]["thorough"].append({"variant": "default", "cases": 600000, "worker_prop": "C09wide", "timeout": 3000})
PROPS["C09"]["floors"]["any"]["wide_known_terms_reinserted"] = 50000

# C14 on the symbolic language: (min size, min depth) analysis with a modify hook that adds a parent, under the shared history generator
# (permuted copies, redundancy, self-reference, congruence chains): the datum must stay the make/merge fix-point while classes shrink,
# gain symmetries and die. The same runs judge C08's structural invariants with an analysis attached to symmetric classes.
PROPS["C14"]["quick"].append({"variant": "default", "cases": 16000, "worker_prop": "C14sym", "timeout": 600})
PROPS["C14"]["quick"].append({"variant": "default", "cases": 8000, "params": {"sparse": 1}, "worker_prop": "C14sym", "timeout": 600})
PROPS["C14"]["thorough"].append({"variant": "default", "cases": 400000, "worker_prop": "C14sym", "timeout": 3000})
PROPS["C14"]["thorough"].append({"variant": "default", "cases": 200000, "params": {"sparse": 1}, "worker_prop": "C14sym", "timeout": 3000})
PROPS["C14"]["thorough"].append({"variant": "checks", "cases": 100000, "worker_prop": "C14sym", "timeout": 3000})
PROPS["C14"]["floors"]["any"]["symbolic_histories_completed"] = 5000
PROPS["C14"]["floors"]["any"]["rewrite_iterations"] = 2000
PROPS["C08"]["quick"].append({"variant": "default", "cases": 8000, "worker_prop": "C14sym", "timeout": 600})
PROPS["C08"]["thorough"].append({"variant": "default", "cases": 200000, "worker_prop": "C14sym", "timeout": 3000})

# C15 cancelling rounds (C15j): one call adds e-nodes / classes for some matches and collapses pre-united parents for others
PROPS["C15"]["floors"]["any"]["runs_cancelling_round"] = 1000
# C10: the group is observed in full between increments (add_set / add alternately); membership also through a user inserted between the assertions (C10j)
# C13 with an analysis attached (C13j): the C14sym world records every equality it observes between handles (and between a handle
# and its permuted invocations) and re-checks all of them after every later operation and rewrite iteration
PROPS["C13"]["quick"].append({"variant": "default", "cases": 12000, "worker_prop": "C14sym", "timeout": 600})
PROPS["C13"]["thorough"].append({"variant": "default", "cases": 300000, "worker_prop": "C14sym", "timeout": 3000})
PROPS["C13"]["floors"]["any"]["recorded_equalities_rechecked"] = 100000
# C01/C02 with an analysis attached: the same histories, queries and oracle, the e-graph carrying the (min size, min depth) analysis
# of c14s.rs whose modify hook inserts parents (make / merge / modify run inside every operation; the verdicts stay exact)
for _p in ("C01", "C02"):
    PROPS[_p]["quick"].append({"variant": "default", "cases": 5000, "params": {"profile": "mix", "analysis": 1}, "timeout": 600})
    PROPS[_p]["thorough"].append({"variant": "default", "cases": 150000, "params": {"profile": "mix", "analysis": 1}, "timeout": 3000})
# C03 swapped-pair family (C03j): a two-parameter subterm next to its copy with the parameters exchanged, under repeated-variable rules
PROPS["C03"]["floors"]["any"]["runs_swapped_pair"] = 200
PROPS["C03"]["quick"].append({"variant": "default", "cases": 4000, "params": {"swapped": 1}, "timeout": 900})
PROPS["C03"]["thorough"].append({"variant": "default", "cases": 60000, "params": {"swapped": 1}, "timeout": 3400})
PROPS["C03"]["floors"]["any"]["runs_swapped_pair"] = 2000
