"""Per-property lanes, observation floors and evidence rules for bin/vcheck."""

PROPS = {}

PROPS["C19"] = {
    "rule": "cases: (A) every insert/remove sequence up to length maxlen over four slots of mixed kinds, compared with a BTreeMap "
            "after every step; (B) every ordered pair of the 625 maps over four slots for the binary operations; (C) triples of "
            "partial injections for associativity; (D) random sequences over 12-40 slots. Non-trivial = sequence containing an "
            "overwrite, a removal of a present key or an out-of-order insertion / pair or triple of non-empty maps / random "
            "sequence that grew beyond the inline capacity of 10. Distinct by construction for the enumerated parts (disjoint "
            "shards of one enumeration), by hash of the operation log for random sequences.",
    "exhaustive": {"quick": False, "thorough": True},
    "assumptions": ["std BTreeMap is a correct finite map", "std DefaultHasher::new() is deterministic"],
    "quick": [
        {"variant": "default", "cases": 3000, "params": {"maxlen": 4, "mode": "all"}, "timeout": 300},
    ],
    "thorough": [
        {"variant": "default", "cases": 400000, "params": {"maxlen": 5, "mode": "all", "assoc_full": 1}, "timeout": 3000},
        {"variant": "checks", "cases": 100000, "params": {"maxlen": 4, "mode": "all"}, "timeout": 3000},
    ],
    "floors": {"any": {"sequences": 1000, "pairs": 390625, "triples": 1000, "random_sequences": 100, "spilled_to_heap": 10}},
}
